#!/usr/bin/env python3
"""Refresh the generated tables of DESIGN.md section 12 (fixes, findings, seeds) from
known_findings.json and seeded/*/meta.json.  The tables live between <!-- BEGIN x --> / <!-- END x --> markers."""
import json, glob, os, re
V = os.path.dirname(os.path.dirname(os.path.abspath(__file__)))
k = json.load(open(os.path.join(V, "known_findings.json")))

def cell(s, n):
    return (s or "").replace("|", "/").replace("\n", " ")[:n]

fixes = "| property | commit | what failed | found by |\n|---|---|---|---|\n" + "\n".join(
    "| %s | %s | %s | %s |" % (f["property"], f["commit"], cell(f["what"], 260), cell(f.get("found_by", ""), 130)) for f in k["fixed"])
n13 = sum(1 for f in k["findings"] if f["key"].startswith("law:"))
n11 = sum(1 for f in k["findings"] if f["key"].startswith("scalar:agree"))
find_rows = ["| C13 | `law:cross-type:*`, `law:eq-symmetric:*`, `law:regex-matches-somewhere:list` (%d keys) |" % n13 + " `==` / ordering flatten a list on one side element-wise, so the algebraic laws fail for list-vs-scalar operands (query-level design of the comparison, not a local slip) |",
             "| C11 | `scalar:agree:<style>:<spelling>` (%d keys) | plain YAML scalars such as `inf`, `nan`, `True`, `0x1F`, `007`, and tagged ones (`!!int 0x1F`, `!!float .inf`), are typed by Rust parsers in `validate` and by serde_yaml's core schema in `test` / run_checks |" % n11]
for f in k["findings"]:
    if f["key"].startswith("law:") or f["key"].startswith("scalar:agree"):
        continue
    find_rows.append("| %s | `%s` | %s |" % (f["property"], f["key"], cell(f["what"], 300)))
findings = "| property | key | what fails |\n|---|---|---|\n" + "\n".join(find_rows)
rows = []
for d in sorted(glob.glob(os.path.join(V, "seeded", "*", ""))):
    m = json.load(open(d + "meta.json"))
    det = m.get("detected_by", {})
    cs = ", ".join("%s (`%s`)" % (c, cell(v.get("violation_key", "").split(" (")[0], 70)) for c, v in det.items())
    origin = "fix reverted" if "_fix" in m["id"] else "sub-agent"
    rows.append("| %s | %s | %s | %s |" % (m["id"], origin, cell(m.get("needs_to_manifest"), 150), cs))
seeds = "| seed | origin | needs to manifest | caught by (violation key) |\n|---|---|---|---|\n" + "\n".join(rows)
p = os.path.join(V, "DESIGN.md")
s = open(p).read()
for name, body in (("fixes", fixes), ("findings", findings), ("seeds", seeds)):
    pat = re.compile(r"<!-- BEGIN %s -->.*?<!-- END %s -->" % (name, name), re.S)
    if not pat.search(s):
        raise SystemExit("marker %s missing" % name)
    s = pat.sub(lambda m_: "<!-- BEGIN %s -->\n%s\n<!-- END %s -->" % (name, body, name), s)
open(p, "w").write(s)
print("fixes %d, findings %d, seeds %d" % (len(k["fixed"]), len(find_rows), len(rows)))
