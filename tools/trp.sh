#!/bin/sh
# dev helper: run TraceReport over .work/trp.ndjson and summarise
cd /verif/spec && TRACE=/verif/.work/trp.ndjson timeout 900 java -Xss1g -Dtlc2.tool.queue.IStateQueue=StateDeque -cp /opt/veriftools/tla/tla2tools.jar:/opt/veriftools/tla/CommunityModules-deps.jar tlc2.TLC -workers 1 -metadir /verif/.work/trp -cleanup -noGenerateSpecTE -config TraceReport.cfg TraceReport.tla > /verif/.work/trp.out 2>&1; python3 - <<'XEOF'
import sys; sys.path.insert(0,'/verif/lib')
from common import *
import collections
out=open('/verif/.work/trp.out').read()
j=judge_lines(out); print('judge',collections.Counter(v for _,v,_ in j))
r=tlc_tuples(out,'RELATE'); print(collections.Counter((t[2],t[3]) for t in r))
print([l for l in out.split('\n') if 'rror' in l][:5])
bad={}
for t in r:
    if t[2]!='ok': bad.setdefault(t[3],[]).append(t[1])
print({k:v[:8] for k,v in bad.items()})
XEOF
