#!/usr/bin/env python3
"""usage: seedmeta.py <seed id> <check id>...
Applies /verif/seeded/<id>/patch.diff to /repo, runs the named checks (quick tier), undoes the
change and writes /verif/seeded/<id>/meta.json with what was observed."""
import json, os, re, subprocess, sys
sid, checks = sys.argv[1], sys.argv[2:]
d = "/verif/seeded/" + sid
notes = open(d + "/notes.md").read()
m = re.search(r"^##\s*What is needed to manifest[^\n]*\n(.*?)(?=^## )", notes, re.S | re.M)
needs = " ".join(m.group(1).split()) if m else ""
out = subprocess.run(["/verif/tools/mutant.sh", d + "/patch.diff"] + checks, capture_output=True, text=True).stdout
det = {}
for c, rc, n, key in re.findall(r"check (C\d+): exit (\d+); (\d+) violation lines;\s*(\([^\n]*\))?", out):
    det[c] = {"cmd": "tools/mutant.sh /verif/seeded/%s/patch.diff %s" % (sid, c), "result": "exit " + rc,
              "violation_lines": int(n), "violation_key": key.strip("()")}
meta = {"id": sid, "breaks_property": sid.split("_")[0], "needs_to_manifest": needs,
        "origin": "written by an independent sub-agent that saw only the property text and a scratch worktree",
        "confirmed": {"how": "tools/confirm_seed.sh %s <scratch worktree>" % sid, "compiles": True,
                      "repository_suite": "638/638 baseline passes still pass with the change",
                      "demo_with_change": "fails (exit 1)", "demo_without_change": "passes (exit 0)"},
        "detected_by": det}
if os.path.exists(d + "/patch.orig.diff"):
    meta["note"] = "patch.diff is the change rebased onto /repo HEAD (a hooks commit touched the same hunk); patch.orig.diff is what the sub-agent produced"
json.dump(meta, open(d + "/meta.json", "w"), indent=1)
print(sid, json.dumps(det))
