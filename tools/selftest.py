#!/usr/bin/env python3
"""usage: selftest.py [seed id ...]
Re-runs, for every stored seed (or the named ones), the check(s) its meta.json says detect it
(tools/mutant.sh applies the patch to /repo, runs the quick checks, undoes the patch) and reports
seeds that are no longer detected.  Nothing else may use /repo while this runs (several hours for all)."""
import glob, json, os, re, subprocess, sys
V = os.path.dirname(os.path.dirname(os.path.abspath(__file__)))
want = set(sys.argv[1:])
missed = []
for d in sorted(glob.glob(os.path.join(V, "seeded", "*", ""))):
    m = json.load(open(d + "meta.json"))
    if want and m["id"] not in want:
        continue
    checks = sorted(m.get("detected_by", {}).keys())
    if not checks:
        continue
    if subprocess.run(["git", "-C", "/repo", "apply", "--check", d + "patch.diff"], capture_output=True).returncode != 0:
        print("%s: patch no longer applies" % m["id"])
        missed.append(m["id"])
        continue
    out = subprocess.run([os.path.join(V, "tools", "mutant.sh"), d + "patch.diff"] + checks, capture_output=True, text=True).stdout
    got = re.findall(r"check (C\d+): exit (\d+)", out)
    ok = any(rc == "1" for _, rc in got)
    print("%s: %s" % (m["id"], " ".join("%s=%s" % g for g in got)), flush=True)
    if not ok:
        missed.append(m["id"])
print("missed:", missed or "none")
sys.exit(1 if missed else 0)
