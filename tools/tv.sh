#!/bin/sh
# dev helper: record N random evaluations and validate them against TraceEval
SEED=${1:-1}; N=${2:-500}; CFG=${3:-core}
cd /verif/harness && cargo build 2>&1 | grep -E "^error" -A7 | head -20
mkdir -p /verif/.work
/verif/.build/target/debug/gv record-eval --seed $SEED --n $N --cfg $CFG --out /verif/.work/t.ndjson || exit 2
cd /verif/spec && TRACE=/verif/.work/t.ndjson JAVA_TOOL_OPTIONS="-Xss1g" timeout 1200 tlc -workers 1 -metadir /verif/.work/tlc1 -cleanup -noGenerateSpecTE -config TraceEval.cfg TraceEval.tla > /verif/.work/tv.out 2>&1
grep -c '"JUDGE"' /verif/.work/tv.out
grep '"JUDGE"' /verif/.work/tv.out | grep -v '"ok"' | head -${4:-15}
grep -E "Error|error|REJECTED|Exception" /verif/.work/tv.out | head -10
grep -A12 "The error occurred" /verif/.work/tv.out | head -30
