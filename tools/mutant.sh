#!/bin/sh
# usage: mutant.sh <patch.diff> <check id>...   applies the patch to /repo, runs the quick checks, undoes the patch
P=$1; shift
cd /repo && git apply "$P" || { echo "patch does not apply"; exit 2; }
for id in "$@"; do
  cd /verif && ./check $id quick > /tmp/mutant_$id.log 2>&1; rc=$?
  echo "check $id: exit $rc; $(grep -c '^VIOLATION' /tmp/mutant_$id.log) violation lines; $(grep -m1 -A1 '^VIOLATION' /tmp/mutant_$id.log | tail -1)"
done
cd /repo && git checkout -- . && git status --short | grep -v images | head -3
