#!/bin/sh
# usage: confirm_seed.sh <seed id, e.g. C01_1> <scratch worktree>
# Confirms in the scratch worktree that the seeded change compiles, passes the repository's own
# suite, that its demonstration fails with the change and passes without; then stores it under
# /verif/seeded/<id>/.
ID=$1; WT=$2; SRC=/tmp/mut_out/$ID
cd $WT && git checkout -q -- . && git apply $SRC/patch.diff || { echo "$ID: patch does not apply"; exit 1; }
S=$(/tmp/mut_tools/run_suite.sh $WT | tail -1)
cargo build --offline -p cfn-guard --bin cfn-guard > /dev/null 2>&1
sh $SRC/demo.sh $WT/target/debug/cfn-guard > /tmp/confirm_$ID.with 2>&1; WITH=$?
git checkout -q -- .
cargo build --offline -p cfn-guard --bin cfn-guard > /dev/null 2>&1
sh $SRC/demo.sh $WT/target/debug/cfn-guard > /tmp/confirm_$ID.without 2>&1; WITHOUT=$?
echo "$ID: suite='$S' demo_with_change=$WITH demo_without=$WITHOUT"
case "$S" in "suite ok"*) ;; *) echo "$ID: NOT KEPT (suite)"; exit 1;; esac
if [ $WITH -ne 0 ] && [ $WITHOUT -eq 0 ]; then
  mkdir -p /verif/seeded/$ID && cp $SRC/patch.diff $SRC/demo.sh $SRC/notes.md /verif/seeded/$ID/
  echo "$ID: kept"
else echo "$ID: NOT KEPT (demo)"; exit 1; fi
