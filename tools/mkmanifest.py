#!/usr/bin/env python3
"""Regenerates /verif/MANIFEST.json from the table below (single source of truth)."""
import json, os
V = os.path.dirname(os.path.dirname(os.path.abspath(__file__)))
props = [json.loads(l)["id"] for l in open(os.path.join(V, "properties.jsonl"))]

NOTE_BASE = ("Trusted: TLC/tla2tools and the Json/IOUtils community modules; the harness renderer (AST -> Guard text, "
             "value -> JSON text) and projector (EventRecord JSON -> node records); libyaml/serde/fancy_regex/f64 themselves. "
             "Bounded: universes of DESIGN section 3.3. ")

CHECKS = {
 "C01": dict(level="model_checking", engine="spec+replay+trace", design="5/C01",
   technique="TLA+ evaluator spec (GuardEval.Denote) model-checked over the single-clause space with TLC; TLC-generated cases replayed into run_checks; recorded evaluations trace-validated by TraceEval",
   text="TLC enumerates every single-clause program x document state of MC_E1 (exhaustive in the thorough tier), checks the documented corner rules as invariants of the specification and emits each state as a replay case that is executed against the real evaluator (status and every value-check outcome compared). In the other direction seeded random rule files (when/blocks/named rules/lets/filters/type blocks/keys filters) are run through run_checks and every recorded evaluation - per-rule status, file status, error-vs-no-error and the whole record tree - is validated by TLC against Denote. Model checking is the right level: the property quantifies over programs x inputs and needs an independent executable reading of the semantics, which is the TLA+ specification.",
   note=NOTE_BASE + "Where the documentation is silent the specification follows the code (IMPL-tagged rules); such rules pin behaviour but cannot expose a defect of the code they were copied from."),
}

m = {"version": 1,
     "setup_cmd": "cd /verif/harness && cargo build --offline && cd /verif/spec && for f in GuardValues GuardOps GuardEval TraceEval MC_E1; do tla-sany $f.tla > /dev/null || exit 1; done",
     "hooks": {"guard": "guard_verif",
               "enable": "rustflags = [\"--cfg\", \"guard_verif\"] in /verif/harness/.cargo/config.toml (checks build the cfn-guard library through the harness path dependency on /repo/guard)",
               "baseline_off_cmd": "cd /repo && cargo nextest run --workspace --no-fail-fast --test-threads 8 --offline || cargo test --workspace --no-fail-fast --offline",
               "source_commits": [], "add_only": True},
     "engines": [
        {"name": "spec", "path": "spec", "serves_properties": sorted(CHECKS), "kind_free_text": "TLA+ specification of the evaluator and drivers, model-checked with TLC"},
        {"name": "replay", "path": "harness", "serves_properties": sorted(CHECKS), "kind_free_text": "spec -> impl: TLC-generated cases executed against the real code (Rust harness gv)"},
        {"name": "trace", "path": "spec/TraceEval.tla", "serves_properties": sorted(CHECKS), "kind_free_text": "impl -> spec: recorded executions validated by TLC trace specifications"}],
     "checks": [], "notes": "see DESIGN.md; known_findings.json lists fixed defects and recorded findings",
     "not_applicable": []}
for p in props:
    if p in CHECKS:
        c = CHECKS[p]
        m["checks"].append({"property_id": p, "quick_cmd": "./check %s quick" % p, "thorough_cmd": "./check %s thorough" % p,
                            "evidence_file": "evidence/%s.json" % p, "replay_cmd_template": "./check %s quick --replay {path}" % p,
                            "engine": c["engine"], "level_claimed": {"category": c["level"], "text": c["text"], "design_ref": c["design"]},
                            "level_note": c["note"], "technique": c["technique"]})
    else:
        m["not_applicable"].append({"property_id": p, "reason": "check not built yet (work in progress, see DESIGN.md section 11)"})
json.dump(m, open(os.path.join(V, "MANIFEST.json"), "w"), indent=1)
print("checks:", [c["property_id"] for c in m["checks"]], "n/a:", len(m["not_applicable"]))
