#!/usr/bin/env python3
"""Regenerates /verif/MANIFEST.json from the table below (single source of truth)."""
import json, os
V = os.path.dirname(os.path.dirname(os.path.abspath(__file__)))
props = [json.loads(l)["id"] for l in open(os.path.join(V, "properties.jsonl"))]

NOTE_BASE = ("Trusted: TLC/tla2tools and the Json/IOUtils community modules; the harness renderer (AST -> Guard text, "
             "value -> JSON text) and projector (EventRecord JSON -> node records); libyaml/serde/fancy_regex/f64 themselves. "
             "Bounded: universes of DESIGN section 3.3. ")

CHECKS = {
 "C01": dict(level="model_checking", engine="spec+replay+trace", design="5/C01",
   technique="TLA+ evaluator spec (GuardEval.Denote) model-checked over the single-clause space with TLC; TLC-generated cases replayed into run_checks; recorded evaluations trace-validated by TraceEval",
   text="TLC enumerates every single-clause program x document state of MC_E1 (exhaustive in the thorough tier), checks the documented corner rules as invariants of the specification and emits each state as a replay case that is executed against the real evaluator (status and every value-check outcome compared). In the other direction seeded random rule files (when/blocks/named rules/lets/filters/type blocks/keys filters) are run through run_checks and every recorded evaluation - per-rule status, file status, error-vs-no-error and the whole record tree - is validated by TLC against Denote. Model checking is the right level: the property quantifies over programs x inputs and needs an independent executable reading of the semantics, which is the TLA+ specification.",
   note=NOTE_BASE + "Where the documentation is silent the specification follows the code (IMPL-tagged rules); such rules pin behaviour but cannot expose a defect of the code they were copied from."),
 "C02": dict(level="model_checking", engine="spec+replay+trace", design="5/C02",
   technique="CNF combinator model (MC_Cnf) checked by TLC at the seven combination call sites and replayed into the evaluator; recorded evaluation records re-derived node by node by the GuardRecord.Explain trace specification",
   text="TLC enumerates every CNF shape up to 3 lines x 3 alternatives with leaves forced to PASS/FAIL/SKIP (60 879 assignments) in each combination context (rule body, when body, query block, type block, filter, when conditions, file), checks on the specification that the resulting status is the one the property's rules give, and prints the serialised record tree; the harness runs each case and compares the implementation's record (kinds, statuses, shape, short-circuit). Independently, the complete record trees of random programs (type blocks, nested when/blocks, filters, rule references) are validated by TraceRecord: Explain walks the rules file and the implementation's own record in parallel and re-derives every composite status from the node's children, including 'condition not PASS => SKIP and body not evaluated', alternatives not evaluated after a PASS, rule references, and root status = returned status.",
   note=NOTE_BASE + "Explain takes the value-check leaves as recorded (it does not depend on the query/operator semantics). Quick tier: 2 of the 7 contexts per run (rotating with the seed); thorough: all."),
 "C03": dict(level="model_checking", engine="spec+replay+trace", design="5/C03",
   technique="negation laws as TLC invariants over the single-clause space of MC_E1; every polarity replayed into run_checks; recorded negation groups validated by the TraceNeg trace specification",
   text="TLC checks on the specification, for every state of MC_E1, that prefix not equals operator-level not, that negating twice restores the original, that SKIP/errors are preserved and that a single comparable value flips PASS/FAIL (not X > v iff X <= v); each state is replayed against the real evaluator in its 2-4 polarities and the relation is re-checked directly between the implementation's runs. Random programs with one clause (in rule bodies, blocks, when conditions, filters) negated both ways, plus `not R` rule references, are recorded and the laws are evaluated by the trace specification TraceNeg on the implementation's own observations.",
   note=NOTE_BASE + "The single-comparable-value flip law is decided on the enumerated space only; on random programs the checked relations are neg==opneg, double negation and named-rule negation."),
 "C04": dict(level="model_checking", engine="spec+trace+hooks", design="5/C04",
   technique="GuardMachine (rule-status cache, variable memo, evaluation stack) model-checked with TLC under every schedule; permutation law over all CNF shapes; recorded permutation groups validated by TraceGroup; hook-event streams validated against GuardMachine by TraceMemo",
   text="The history dimension is modelled explicitly: GuardMachine has one action per critical section of the scopes (cache miss/hit of rule_status, first evaluation / memo read of a variable, key capture, fresh root scope) and TLC checks, for every reference graph over three rules, every status assignment and every order in which file rules and references are visited, that the cache is coherent, single-assigned, never re-entered and that the result does not depend on the schedule. TLC also checks that the combination rules are invariant under every permutation and repetition of lines and alternatives (shapes up to 4x3). Against the code: random rule files are evaluated together with variants in which lines, alternatives or rules are permuted, a clause is repeated or a rule is duplicated under a new name, and TraceGroup requires identical verdicts (as multisets) unless an ordering raised an error; the hook events of random evaluations (rules referenced before and after their definition, variables read several times) are validated step by step against GuardMachine.",
   note=NOTE_BASE + "Hooks (cfg guard_verif) report after the state change; block scopes are identified by address, so the single-assignment check is exact for the root scope and weaker (memo read must return the last computed count) for block scopes."),
 "C09": dict(level="model_checking", engine="spec+trace", design="5/C09",
   technique="report builder specified in TLA+ (GuardReport.Simplify, Combine, StatusAnd); union/status laws model-checked (MC_Report); recorded structured reports validated against Simplify of the record of the same run and the partition laws (TraceReport)",
   text="TLC checks exhaustively, over all combinations of three abstract per-rules-file reports, that combining reports is a union on which the partition and status laws survive independently of order. Against the code, for random rule files (distinct names; blocks, type blocks, disjunctions, rule references, custom messages) the structured report returned by the library call is compared with GuardReport.Simplify applied to the evaluation record of the same run: every listed check is a FAIL value check of that rule's subtree with its kind, paths, values and custom message, every FAIL rule is listed, nothing is listed under PASS/SKIP rules; the partition law against the evaluated (rule, status) list and the file-status law are evaluated on the report; a report that is not JSON, an error or a panic are violations. The record itself is tied to Denote by the same trace (verdicts, shape, check details).",
   note=NOTE_BASE + "The multi-rules-file union is decided on the model (MC_Report) and, against the code, by the CLI checks of C07/C12 when built."),
 "C10": dict(level="model_checking", engine="spec+trace", design="5/C10",
   technique="PathOK invariant over the single-clause space (TLC); recorded value checks compared field by field (kind, path, value of from/to) with the specification's record and resolved against the document (TraceReport)",
   text="TLC checks on the specification that every result of every query of MC_E1 sits at its path in the document and that an unresolved result names an existing point whose next queried segment is missing. Against the code, for random rule files the kind, slash path and value of the `from` and `to` of every value check in the implementation's record must equal those the specification derives, and every path of a value that comes from the data must resolve in the document to exactly the reported value (PathsSound).",
   note=NOTE_BASE + "Line/column positions (CLI, libyaml loader) are not yet covered by this check; remaining_query strings are not compared."),
 "C13": dict(level="model_checking", engine="spec+replay", design="5/C13",
   technique="algebra laws (trichotomy, <=/>= decomposition, order, reflexivity/symmetry of ==, range/regex/in membership, cross-type) evaluated by TLC over the full value x operator x rhs matrix of MC_C13; every cell replayed into run_checks",
   text="Exhaustive in both tiers: TLC enumerates every ordered pair of the 38-value universe (boundary ints, finite floats, unicode/prefix strings, bools, null, lists, maps) x six operators x both polarities, the four range bracket forms, a regex table and in-lists, with the left side loaded from the data and the right side a literal, plus all pairs with both sides loaded from the data; the laws of the property are evaluated on the whole matrix and every cell is executed against the real evaluator and compared. A law broken on the matrix is therefore broken by the implementation; such laws are reported by name and input class.",
   note=NOTE_BASE + "i64/f64 arithmetic and fancy_regex are trusted; arbitrary regexes are outside the modelled fragment."),
 "C15": dict(level="model_checking", engine="spec+trace+hooks", design="5/C15",
   technique="abstraction law (AbsOK) checked by TLC over the single-clause space; recorded abstraction groups validated by TraceGroup; variable-resolution hook events validated against GuardMachine",
   text="TLC checks on the specification, for every state of MC_E1, that binding the literal or query right-hand side, or any prefix of the left-hand query, to a file-level or rule-level variable leaves the verdict unchanged, that an inner definition shadows an outer one and that an unused (even unevaluable) variable has no influence. Against the code, random rule files are evaluated together with variants where one occurrence is abstracted into a let (literal rhs, query rhs, query prefix; file or rule scope), an unused variable is added, an outer definition is shadowed, or a clause is replaced by a call of a parameterised rule with that clause as its body; TraceGroup requires identical verdicts and every line is also judged against Denote. The hook events show which scope served each variable and that every reference sees the value first computed.",
   note=NOTE_BASE + "Block-level abstraction sites inside query blocks are exercised only through the generator's own block lets (judged against Denote), not through the abstraction transformation."),
}

m = {"version": 1,
     "setup_cmd": "cd /verif/harness && cargo build --offline && cd /verif/spec && for f in GuardValues GuardOps GuardEval TraceEval TraceNeg TraceRecord TraceGroup TraceMemo TraceReport MC_Report MC_E1 MC_C13 MC_Cnf MC_Machine; do tla-sany $f.tla > /dev/null || exit 1; done",
     "hooks": {"guard": "guard_verif",
               "enable": "rustflags = [\"--cfg\", \"guard_verif\"] in /verif/harness/.cargo/config.toml (checks build the cfn-guard library through the harness path dependency on /repo/guard)",
               "baseline_off_cmd": "cd /repo && cargo nextest run --workspace --no-fail-fast --test-threads 8 --offline || cargo test --workspace --no-fail-fast --offline",
               "source_commits": ["7d9b4b1"], "add_only": True},
     "engines": [
        {"name": "spec", "path": "spec", "serves_properties": sorted(CHECKS), "kind_free_text": "TLA+ specification of the evaluator and drivers, model-checked with TLC"},
        {"name": "replay", "path": "harness", "serves_properties": sorted(CHECKS), "kind_free_text": "spec -> impl: TLC-generated cases executed against the real code (Rust harness gv)"},
        {"name": "trace", "path": "spec/TraceEval.tla", "serves_properties": sorted(CHECKS), "kind_free_text": "impl -> spec: recorded executions validated by TLC trace specifications"}],
     "checks": [], "notes": "see DESIGN.md; known_findings.json lists fixed defects and recorded findings",
     "not_applicable": []}
for p in props:
    if p in CHECKS:
        c = CHECKS[p]
        m["checks"].append({"property_id": p, "quick_cmd": "./check %s quick" % p, "thorough_cmd": "./check %s thorough" % p,
                            "evidence_file": "evidence/%s.json" % p, "replay_cmd_template": "./check %s quick --replay {path}" % p,
                            "engine": c["engine"], "level_claimed": {"category": c["level"], "text": c["text"], "design_ref": c["design"]},
                            "level_note": c["note"], "technique": c["technique"]})
    else:
        m["not_applicable"].append({"property_id": p, "reason": "check not built yet (work in progress, see DESIGN.md section 11)"})
json.dump(m, open(os.path.join(V, "MANIFEST.json"), "w"), indent=1)
print("checks:", [c["property_id"] for c in m["checks"]], "n/a:", len(m["not_applicable"]))
