#!/usr/bin/env python3
"""dev helper: for mismatching JUDGE lines show the first differing tree node"""
import json,sys,re,subprocess
lines=open('/verif/.work/t.ndjson').read().split('\n')
def norm(n):
    return {'k':n['k'],'st':n['st'],'n':n.get('n',''),'vk':n.get('vk',''),'ch':[norm(c) for c in n['ch']]}
def diff(a,b,path):
    for f in ('k','st','n','vk'):
        if a[f]!=b[f]: return f"{path}: field {f}: obs={a[f]} spec={b[f]} (obs node {a['k']}/{a['st']}, spec node {b['k']}/{b['st']})"
    if len(a['ch'])!=len(b['ch']):
        return f"{path}/{a['k']}: children obs={[(c['k'],c['st'],c['vk']) for c in a['ch']]} spec={[(c['k'],c['st'],c['vk']) for c in b['ch']]}"
    for i,(x,y) in enumerate(zip(a['ch'],b['ch'])):
        d=diff(x,y,f"{path}/{a['k']}[{i}]")
        if d: return d
    return None
n=0
maxn=int(sys.argv[1]) if len(sys.argv)>1 else 5
for l in open('/verif/.work/tv.out'):
    m=re.match(r'<<"JUDGE", (\d+), "mismatch", "(.*)">>$',l.strip())
    if not m: continue
    i=int(m.group(1)); exp=json.loads(m.group(2).encode().decode('unicode_escape').encode('latin1').decode('utf8'))
    j=json.loads(lines[i-1]); obs=j['obs']
    print('== line',i,'obs',obs['kind'],obs.get('msg','')[:200],'| spec',exp['kind'],exp.get('e',''))
    if obs['kind']=='ok' and exp['kind']=='ok':
        if obs['rules']!=exp['rules']: print('  rules obs',obs['rules'],'spec',exp['rules'])
        print('  ',diff(norm(obs['tree']),norm(exp['tree']),''))
    if '-r' in sys.argv:
        out=subprocess.run(['/verif/.build/target/debug/gv','render'],input=json.dumps(j),capture_output=True,text=True).stdout
        print(out[:out.index('--- obs')][:1500])
    n+=1
    if n>=maxn: break
