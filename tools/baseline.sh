#!/bin/sh
# Runs the repository's own test suite (guard OFF) and compares the set of passing tests with
# the 638 stable passes recorded on the pinned tree (tools/baseline_pass.txt).
cd /repo || exit 2
cargo nextest run --workspace --no-fail-fast --test-threads 8 --offline > /tmp/nextest.$$.log 2>&1
grep "PASS \[" /tmp/nextest.$$.log | sed -E 's/.*\) //' | sort > /tmp/nextest.$$.pass
missing=$(comm -23 /verif/tools/baseline_pass.txt /tmp/nextest.$$.pass)
n=$(wc -l < /tmp/nextest.$$.pass)
rm -f /tmp/nextest.$$.log.keep; mv /tmp/nextest.$$.log /tmp/nextest.last.log; rm -f /tmp/nextest.$$.pass
if [ -n "$missing" ]; then echo "BASELINE REGRESSION ($n passing):"; echo "$missing"; exit 1; fi
echo "baseline ok: $n passing, all 638 stable passes present"
