#!/usr/bin/env python3
"""dev helper: show the first differing node between the spec full tree and obs.ftree for a line"""
import json,sys,subprocess,os
sys.path.insert(0,'/verif/lib')
from common import *
i=int(sys.argv[1])
lines=open('/verif/.work/trp.ndjson').read().split('\n')
line=json.loads(lines[i-1])
# ask TLC for the spec's tree via a one-line trace and a tiny module
open('/verif/.work/one.ndjson','w').write(json.dumps(line)+'\n')
mod='''---- MODULE Dump ----
EXTENDS TraceCommon, GuardReport
VARIABLE l
Init == l = 1
Next == l = 1 /\\ PrintT(<<"DUMP", ToJson(Denote(Rec[1].prog, Rec[1].doc, {}))>>) /\\ PrintT(<<"SIMP", ToJson(Simplify(Rec[1].obs.ftree).nc)>>) /\\ l' = 2
Spec == Init /\\ [][Next]_l
====
'''
open('/verif/spec/Dump.tla','w').write(mod); open('/verif/spec/Dump.cfg','w').write('SPECIFICATION Spec\nCHECK_DEADLOCK FALSE\n')
r=tlc('Dump',env={'TRACE':'/verif/.work/one.ndjson'},tag='dump')
os.remove('/verif/spec/Dump.tla'); os.remove('/verif/spec/Dump.cfg')
d=json.loads(tlc_tuples(r['out'],'DUMP')[0][1])
simp=json.loads(tlc_tuples(r['out'],'SIMP')[0][1])
def diff(a,b,path):
    for f in ('k','st','n','vk','msg','fq','fp','fv','tq','tp','tv'):
        if a.get(f)!=b.get(f): return f"{path}/{a['k']}: field {f}: obs={json.dumps(a.get(f))[:300]} spec={json.dumps(b.get(f))[:300]}"
    if len(a['ch'])!=len(b['ch']): return f"{path}/{a['k']}: children differ"
    for k,(x,y) in enumerate(zip(a['ch'],b['ch'])):
        dd=diff(x,y,f"{path}/{a['k']}[{k}]")
        if dd: return dd
print(list(d.keys())[:6]); print(diff(line['obs']['ftree'],d['tree'],'') if 'tree' in d else d)
if '-s' in sys.argv:
    print('SIMP',json.dumps(simp)[:1500]); print('REP ',json.dumps(line['obs']['report'].get('nc'))[:1500])
if '-r' in sys.argv:
    print(subprocess.run(['/verif/.build/target/debug/gv','render'],input=json.dumps(line),capture_output=True,text=True).stdout[:1500])
