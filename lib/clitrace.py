"""Recording command-line runs of the real binary as ndjson traces for TraceCli."""
import json, os, random
from common import *
import cli

BROKEN_RULES = "rule broken {\n  a == \n}\n"
EMPTY_RULES = "# nothing but a comment\n"
BAD_DATA = '{"a": [1, 2'

# output format x flags: what the run prints and how it is read back
MODES = [
    {"fmt": "sjson", "args": ["--structured", "-o", "json", "-S", "none"]},
    {"fmt": "syaml", "args": ["--structured", "-o", "yaml", "-S", "none"]},
    {"fmt": "junit", "args": ["--structured", "-o", "junit", "-S", "none"]},
    {"fmt": "sarif", "args": ["--structured", "-o", "sarif", "-S", "none"]},
    {"fmt": "summary", "args": ["-S", "all"], "shows": ["PASS", "FAIL", "SKIP"]},
    {"fmt": "summary", "args": ["-S", "fail"], "shows": ["FAIL"]},
    {"fmt": "summary", "args": ["-S", "pass,skip"], "shows": ["PASS", "SKIP"]},
    {"fmt": "summary", "args": ["-S", "all", "-v"], "shows": ["PASS", "FAIL", "SKIP"]},
    {"fmt": "none", "args": ["-S", "none"]},
    {"fmt": "pjson", "args": ["-S", "none", "-p"]},
    {"fmt": "ojson", "args": ["-S", "none", "-o", "json"]},
    {"fmt": "oyaml", "args": ["-S", "none", "-o", "yaml"]},
]
ENTRIES = ["files", "stdin", "payload"]


def gen_pairs(seed_, n, cfg):
    out = gv(["gen", "--seed", seed_, "--n", n, "--cfg", cfg])
    return [json.loads(l) for l in out.split("\n") if l.strip()]


def add_refs(pairs):
    """append `rule ref_<name> { <name> }` for every rule name of each generated rules file: the status
    of every rule is then also observed through a reference by name (which the implementation serves
    from the per-evaluation rule status cache)"""
    for c in pairs:
        names = []
        for r in c["prog"]["rules"]:
            if r["n"] not in names:
                names.append(r["n"])
        for nm in names:
            c["prog"]["rules"].append({"n": "ref_" + nm, "w": [], "lets": [], "b": [[{"c": "named", "n": nm, "neg": False}]]})
    lines = "\n".join(json.dumps({"prog": c["prog"], "doc": None}) for c in pairs)
    out = gv(["render-many"], input=lines)
    texts = [json.loads(l)["rules"] for l in out.split("\n") if l.strip()]
    for c, t in zip(pairs, texts):
        c["rules"] = t
    return pairs


def name_default(pairs, bare=False):
    """call the first rule of each given program `default` (every reference to it too)"""
    def ren(o, old):
        if isinstance(o, dict):
            if o.get("c") == "named" and o.get("n") == old:
                o["n"] = "default"
            for v in o.values():
                ren(v, old)
        elif isinstance(o, list):
            for v in o:
                ren(v, old)
    for c in pairs:
        rules = c["prog"]["rules"]
        if not rules or any(r["n"] == "default" for r in rules):
            continue
        if bare:
            # prefer a rule that can be written as bare clauses; it has to come first in the file
            def simple(r):
                return (not r["w"] and not r["lets"] and r["b"] and all(all(x["c"] == "gac" for x in line) for line in r["b"])
                        and sum(1 for y in rules if y["n"] == r["n"]) == 1)
            cand = [x for x in range(len(rules)) if simple(rules[x])]
            if cand:
                rules.insert(0, rules.pop(cand[0]))
        old = rules[0]["n"]
        for r in rules:
            if r["n"] == old:
                r["n"] = "default"
        ren(c["prog"], old)
    # written as bare clauses (the implicit default rule) where the body allows it and the rule is not
    # referred to by name (the implicit rule is named <file>/default)
    def referenced(o):
        if isinstance(o, dict):
            return (o.get("c") == "named" and o.get("n") == "default") or any(referenced(v) for v in o.values())
        return isinstance(o, list) and any(referenced(v) for v in o)
    lines = "\n".join(json.dumps({"prog": c["prog"], "doc": None, "style": {"bare": bare and not referenced(c["prog"]) and c["prog"]["rules"][0]["n"] == "default"}}) for c in pairs)
    out = gv(["render-many"], input=lines)
    rs = [json.loads(l) for l in out.split("\n") if l.strip()]
    for c, r in zip(pairs, rs):
        c["rules"] = r["rules"]
        c["bare_default"] = bool(bare and r["bare_ok"] and not referenced(c["prog"]) and c["prog"]["rules"][0]["n"] == "default"
                                 and sum(1 for x in c["prog"]["rules"] if x["n"] == "default") == 1)
        if bare and not c["bare_default"]:
            # could not be written bare after all: keep the explicit rule
            c["rules"] = json.loads(gv(["render-many"], input=json.dumps({"prog": c["prog"], "doc": None})).strip())["rules"]
    return pairs


def split_top(doc, rnd, overlap):
    """split the top-level map of an abstract document into parameter documents + data.
    overlap: False, "pp" (two parameter documents define the same key) or "pd" (a parameter
    document and the data do); the second definition gets a different value half of the time and
    is put at a random position of its map."""
    ks, vs = doc["k"], doc["v"]
    n = len(ks)
    nparts = rnd.randint(2, 3) if overlap == "pp" else rnd.randint(1, 3)
    buckets = [[] for _ in range(nparts + 1)]       # last bucket = data
    for i in range(n):
        buckets[rnd.randrange(nparts + 1)].append(i)
    docs = [{"t": "map", "k": [ks[i] for i in b], "v": [vs[i] for i in b]} for b in buckets]
    if overlap and n > 0:
        i = rnd.randrange(n)
        # half of the time the shared key holds a map on both sides (a clash, not something to merge)
        maps = [j for j in range(n) if vs[j].get("t") == "map" and len(vs[j].get("k", [])) > 0]
        if maps and rnd.random() < 0.5:
            i = rnd.choice(maps)
        if overlap == "pp":
            a, b = rnd.sample(range(nparts), 2)
        else:
            a, b = rnd.randrange(nparts), nparts
        first = True
        for t in (a, b):
            if ks[i] not in docs[t]["k"]:
                at = rnd.randint(0, len(docs[t]["k"]))
                v = vs[i] if (first or rnd.random() < 0.5) else mutate_doc(vs[i], rnd)
                if not first and vs[i].get("t") == "map" and rnd.random() < 0.6:
                    # the second definition is a map with other keys: still a clash of the shared key
                    v = {"t": "map", "k": [[122, 113]], "v": [{"t": "int", "v": 0}]}
                docs[t]["k"].insert(at, ks[i])
                docs[t]["v"].insert(at, v)
            first = False
    return docs[:-1], docs[-1]


def pick_keys(wd, tag, rules_texts, cands):
    """per candidate data text: the statuses of all rules of the rules files on it, as one string
    ("error <exit code>" when the run ends without a report)"""
    rps = [wd.write("%s/pick_r%d.guard" % (tag, k), t) for k, t in enumerate(rules_texts)]
    dps = [wd.write("%s/pick_d%d.json" % (tag, k), t) for k, t in enumerate(cands)]
    keys = []
    for d in dps:
        args = ["validate", "--structured", "-o", "json", "-S", "none", "-d", d]
        for r in rps:
            args += ["-r", r]
        rc, so, se = cli.run(args)
        try:
            keys.append(json.dumps([[sorted(rep.get("compliant", [])), sorted(rep.get("not_applicable", []))] for rep in json.loads(so)]))
        except (ValueError, KeyError, TypeError, AttributeError):
            keys.append("error %d" % rc)
    return keys


def pick_differing(wd, tag, rules_texts, cands, n, rnd, avoid_errors=True):
    """choose n of the candidate data texts so that the rules come out as differently as possible on
    them (the statuses only guide the choice of inputs, nothing is judged with them).  Returns
    indices into cands."""
    keys = pick_keys(wd, tag, rules_texts, cands)
    order = list(range(len(cands)))
    rnd.shuffle(order)
    if avoid_errors:
        # an evaluation error aborts the whole run: prefer candidates on which every rules file evaluates
        order = [q for q in order if not keys[q].startswith("error")] + [q for q in order if keys[q].startswith("error")]
    picked, seen = [], set()
    for q in order:
        if keys[q] not in seen and len(picked) < n:
            seen.add(keys[q])
            picked.append(q)
    for q in order:
        if len(picked) < n and q not in picked:
            picked.append(q)
    return picked


def render_docs(docs):
    lines = "\n".join(json.dumps({"prog": None, "doc": d}) for d in docs)
    out = gv(["render-many"], input=lines)
    return [json.loads(l)["data"] for l in out.split("\n") if l.strip()]


def extract(mode, rc, so, se, rules_names, data_names):
    """what the output shows -> obs dict for TraceCli (no semantics here)"""
    obs = {"exit": rc if rc >= 0 else 1000 - rc, "wf": True, "view": "none", "shown": [], "nresults": 0,
           "panic": "panicked at" in se}
    fmt = mode["fmt"]
    didx = {n: i + 1 for i, n in enumerate(data_names)}
    ridx = {n: i + 1 for i, n in enumerate(rules_names)}
    try:
        if fmt in ("sjson", "syaml"):
            obs["view"] = "perdata"
            if not so.strip():
                return obs
            j = json.loads(so) if fmt == "sjson" else cli.yaml_to_json(so)
            if j is None:
                obs["wf"] = False
                return obs
            for name, rep in cli.reports_from_structured(j).items():
                obs["shown"].append({"d": didx.get(name, 0), "status": rep["status"], "pass": rep["pass"],
                                     "fail": rep["fail"], "skip": rep["skip"], "nfail": rep["n_fail_items"]})
        elif fmt == "sarif":
            obs["view"] = "nresults"
            if not so.strip():
                return obs
            j = json.loads(so)
            obs["nresults"] = sum(len(r.get("results", [])) for r in j["runs"])
            obs["wf"] = j.get("version") == "2.1.0" and len(j["runs"]) == 1
            # shape: artifacts, and per (data file, ruleId) the number of results
            uidx = {(n[1:] if n.startswith("/") else n): k for n, k in didx.items()}
            counts, arts, wf = {}, [], True
            for run in j["runs"]:
                for a in run.get("artifacts", []):
                    arts.append(uidx.get(a["location"]["uri"], 0))
                for r in run.get("results", []):
                    locs = r.get("locations", [])
                    if len(locs) != 1 or r.get("level") != "error" or not isinstance(r.get("message", {}).get("text"), str):
                        wf = False
                        continue
                    pl = locs[0]["physicalLocation"]
                    reg = pl["region"]
                    if reg["startLine"] < 1 or reg["startColumn"] < 1:
                        wf = False
                    key = (uidx.get(pl["artifactLocation"]["uri"], 0), r["ruleId"])
                    counts[key] = counts.get(key, 0) + 1
            obs["arts"] = arts
            obs["regions_wf"] = wf
            obs["sres"] = [{"d": d, "rid": rid, "rule": "?" + rid, "n": n} for (d, rid), n in sorted(counts.items())]
        elif fmt == "junit":
            obs["view"] = "perpair"
            if not so.strip():
                return obs
            suites = cli.parse_junit(so)
            if suites is None:
                obs["wf"] = False
                return obs
            for dname, cases in suites.items():
                for rname, st in cases.items():
                    obs["shown"].append({"r": ridx.get(rname, 0), "d": didx.get(dname, 0), "has_rules": False,
                                         "file": {"pass": "PASS", "skip": "SKIP", "fail": "FAIL"}.get(st, "ERR"),
                                         "PASS": [], "FAIL": [], "SKIP": []})
        elif fmt == "summary":
            obs["view"] = "perpair"
            blocks = cli.parse_summary(so)
            # blocks come in evaluation order: rules files outer, data files inner
            k = 0
            for b in blocks:
                rows = {"PASS": [], "FAIL": [], "SKIP": []}
                rfile = None
                for disp, st in b["rows"].items():
                    if "/" in disp:
                        rfile, rule = disp.split("/", 1)
                    else:
                        rule = disp
                    rows[st].append(rule)
                obs["shown"].append({"r": ridx.get(rfile, 0) if rfile else 0, "d": didx.get(b["data"], 0),
                                     "has_rules": True, "file": b["status"], "PASS": sorted(rows["PASS"]),
                                     "FAIL": sorted(rows["FAIL"]), "SKIP": sorted(rows["SKIP"]), "order": k})
                k += 1
        elif fmt in ("ojson", "oyaml", "pjson"):
            obs["view"] = "perpair-seq"
            if fmt == "oyaml":
                chunks, cur = [], []
                for ln in so.split("\n"):
                    if ln.startswith("name: ") and cur:
                        chunks.append("\n".join(cur))
                        cur = []
                    cur.append(ln)
                if "".join(cur).strip():
                    chunks.append("\n".join(cur))
                docs = [cli.yaml_to_json(d) for d in chunks]
                docs = [d for d in docs if d is not None]
            else:
                docs = cli.split_json_docs(so)
            for dct in docs:
                if fmt == "pjson":
                    c = dct["container"]["FileCheck"]
                    rows = {"PASS": [], "FAIL": [], "SKIP": []}
                    for ch in dct["children"]:
                        rc_ = ch["container"].get("RuleCheck")
                        if rc_:
                            rows[rc_["status"]].append(rc_["name"])
                    obs["shown"].append({"d": didx.get(c["name"], 0), "has_rules": True, "file": c["status"],
                                         "PASS": sorted(rows["PASS"]), "FAIL": sorted(rows["FAIL"]), "SKIP": sorted(rows["SKIP"])})
                else:
                    rep = cli.reports_from_structured([dct])
                    for name, r in rep.items():
                        obs["shown"].append({"d": didx.get(name, 0), "has_rules": True, "file": r["status"],
                                             "PASS": r["pass"], "FAIL": r["fail"], "SKIP": r["skip"]})
    except (ValueError, KeyError, TypeError, AttributeError):
        obs["wf"] = False
    return obs


def assign_pairs_in_order(obs, line):
    """plain outputs list their (rules, data) pairs in evaluation order without naming the rules
    file: rules files outer loop, data files inner loop, only parsed rules files"""
    if obs["view"] != "perpair-seq":
        return
    order = [(r + 1, d + 1) for r, rf in enumerate(line["rules"]) if rf["parse"] == "ok"
             for d, df in enumerate(line["data"]) if df["load"] == "ok"]
    shown = obs["shown"]
    obs["view"] = "perpair"
    if len(shown) != len(order):
        obs["wf"] = obs["wf"] and len(shown) == 0 and False
        obs["shown"] = []
        obs["seq_mismatch"] = [len(shown), len(order)]
        return
    for s, (r, d) in zip(shown, order):
        s["r"] = r
        s["dseen"] = s["d"]
        s["d"] = d if s["d"] in (0, d) else -1


def mutate_doc(doc, rnd, depth=0):
    """a variant of an abstract document: some scalars changed, some entries dropped"""
    t = doc.get("t")
    if t == "map":
        ks, vs = [], []
        for k, v in zip(doc["k"], doc["v"]):
            if depth > 0 and rnd.random() < 0.12:
                continue
            ks.append(k)
            vs.append(mutate_doc(v, rnd, depth + 1))
        return {"t": "map", "k": ks, "v": vs}
    if t == "list":
        vs = [mutate_doc(v, rnd, depth + 1) for v in doc["v"] if rnd.random() > 0.12]
        return {"t": "list", "v": vs}
    if rnd.random() < 0.35:
        if t == "int":
            return {"t": "int", "v": doc["v"] + rnd.choice([-1, 1, 5])}
        if t == "str":
            return {"t": "str", "v": doc["v"] + [120]} if rnd.random() < 0.5 else {"t": "str", "v": []}
        if t == "bool":
            return {"t": "bool", "v": not doc["v"]}
        if t == "null":
            return {"t": "int", "v": 0}
        if t == "flt":
            return {"t": "flt", "v": abs(doc["v"]) + 500}
    return doc


def run_job(wd, i, rules, data, params, mode, entry, params_docs=None, events=None):
    """rules: list of dict(parse, prog?, text) ; data: list of dict(load, doc?, text); params: list of texts"""
    rpaths, dpaths, ppaths = [], [], []
    for k, r in enumerate(rules):
        rpaths.append(wd.write("j%d/r%d.guard" % (i, k + 1), r["text"]))
    for k, d in enumerate(data):
        dpaths.append(wd.write("j%d/d%d.json" % (i, k + 1), d["text"]))
    for k, p in enumerate(params):
        # every other job keeps its parameter files under the same file name in different directories
        ppaths.append(wd.write(("j%d/p%d/params.json" if i % 2 == 0 else "j%d/p%d.json") % (i, k + 1), p))
    args = ["validate"]
    stdin = None
    params_used = True
    if entry == "files":
        for r in rpaths:
            args += ["-r", r]
        for d in dpaths:
            args += ["-d", d]
        data_names = [os.path.realpath(d) for d in dpaths]
        rules_names = [os.path.basename(r) for r in rpaths]
    elif entry == "stdin":
        for r in rpaths:
            args += ["-r", r]
        stdin = data[0]["text"]
        data_names = ["STDIN"]
        rules_names = [os.path.basename(r) for r in rpaths]
    else:
        args += ["--payload"]
        stdin = json.dumps({"rules": [r["text"] for r in rules], "data": [d["text"] for d in data]})
        data_names = ["DATA_STDIN[%d]" % (k + 1) for k in range(len(data))]
        rules_names = ["RULES_STDIN[%d]" % (k + 1) for k in range(len(rules))]
    for p in ppaths:
        args += ["-i", p]
    args += mode["args"]
    rc, so, se = cli.run(args, stdin=stdin, env={"GUARD_VERIF_EVENTS": events} if events else None)
    line = {"i": i, "mode": {"fmt": mode["fmt"], "entry": entry, "shows": mode.get("shows", ["PASS", "FAIL", "SKIP"])},
            "rules": [{"parse": r["parse"], "prog": r.get("prog", {"lets": [], "rules": [], "prules": []})} for r in rules],
            "data": [{"load": d["load"], "doc": d.get("doc", {"t": "null"})} for d in data],
            "params": params_docs or [], "params_used": params_used}
    obs = extract(mode, rc, so, se, rules_names, data_names)
    assign_pairs_in_order(obs, line)
    if "sres" in obs:
        # ruleId is the upper-cased rule name (up to the first dot): map it back to the name
        back = {}
        for rf in line["rules"]:
            for rl in rf["prog"]["rules"]:
                back.setdefault(rl["n"].split(".")[0].upper(), rl["n"])
        for e in obs["sres"]:
            e["rule"] = back.get(e["rid"], "?" + e["rid"])
    line["obs"] = obs
    line["cmd"] = {"args": [a.replace(wd.path + "/", "") for a in args], "stderr": se[:700], "stdout_head": so[:300]}
    return line


def judge(res, tr, n_expected, key_prefix=""):
    """run TraceCli over trace file tr; CLI tuples -> violations"""
    r = tlc("TraceCli", env={"TRACE": tr}, workers=1, timeout=3000, tag="tcli" + res.prop, heap="6g")
    if "TRACE-REJECTED" in r["out"] or not r["ok"]:
        log(r["out"][-3000:])
        raise ToolError("TraceCli did not consume the whole trace")
    res.add("states", r["distinct"])
    res.add("transitions", r["states"])
    lines = [json.loads(l) for l in open(tr) if l.strip()]
    verdicts = tlc_tuples(r["out"], "CLI")
    if len(verdicts) != 2 * len(lines):
        raise ToolError("TraceCli judged %d of %d lines" % (len(verdicts) // 2, len(lines)))
    bad = {}
    for t in verdicts:
        i, v = t[1], t[2]
        if v != "ok":
            bad.setdefault(i, []).append((v, t[3], t[4]))
    by_i = {l["i"]: l for l in lines}
    for l in lines:
        if l["i"] in bad:
            kinds = bad[l["i"]]
            v = kinds[0]
            if v[0] == "exit":
                key = "%sexit:%s/%s:want-%s-got-%s%s" % (key_prefix, l["mode"]["fmt"], l["mode"]["entry"], v[1], v[2],
                                                         ":panic" if l["obs"].get("panic") else "")
            else:
                key = "%sshown:%s/%s" % (key_prefix, l["mode"]["fmt"], l["mode"]["entry"])
            res.violation(key, {"line": l, "verdicts": kinds})
        else:
            res.add("traces_validated_against_impl")
    return lines, bad
