"""C10 - reported paths, values and source positions point into the input document."""
import os
from common import *
import core, c01, c09


def run(tier):
    res = Result("C10", tier, "model_checking")
    res.assumptions = ["documents of the generators contain no strings that look like regex or range literals (reported literals are printed that way)",
                       "remaining_query strings are not compared (only the point reached and the reported value)",
                       "positions are observed through the Path=<p>[L:l,C:c] strings of the structured report and through the regions of the SARIF report of the same run"]
    env = {}
    if tier == "quick":
        env = {"SLICES": "6", "SLICE": str(1 + seed() % 6)}
    r = tlc("MC_E1", cfg="MC_E1_path", env=env, workers=8, timeout=2400, tag="e1path", heap="8g")
    if not r["ok"]:
        log(r["out"][-3000:])
        raise ToolError("MC_E1: PathOK fails on the specification")
    res.add("states", r["distinct"])
    res.add("transitions", r["states"])
    c09.report_trace(res, tier, 1200 if tier == "quick" else 15000, ["core", "full"], ["full", "resolve"], seed_mul=67867967)
    # source positions: documents written by the specification's serialiser (which records where
    # every scalar starts) are loaded by validate; every reported [L,C] must be that position
    import c11, cli
    cases = c11.load_cases(res, tier, None, "10")
    wd = cli.Workdir("c10")
    tr = os.path.join(WORK, "trace_C10_load.ndjson")
    n = c11.record(tr, cases, wd, {"doc"})
    wd.close()
    c11.judge(res, tr, n, {"positions", "sarif-regions", "payload-positions", "text", "validate-value"}, lambda name, line: "positions:%s:%s" % (name, line["fmt"]))
    res.add("evaluations", n)
    os.remove(tr)
    res.cov["rule"] = ("PathOK over the single-clause space (every query result sits at its path; unresolved results name an "
                       "existing point whose next segment is missing); R: for random programs the kind, path and value of the "
                       "`from`/`to` of every value check the implementation records equal those the specification derives, "
                       "and every data path of the specification's record resolves in the document to the reported value; documents written by "
                       "GuardLoad.Ser in JSON / pretty JSON / flow YAML / block YAML under layout vectors (indent, quoting, comments, blank lines): "
                       "every [L,C] the validate command reports for a scalar, and every SARIF region, equals the position the serialiser recorded")
    return res.finish()


def replay(path):
    return c01.replay(path)
