"""C11 - a document means the same however it is written or loaded (and C10's positions)."""
import json, os, random
from common import *
import cli, load


def guard_literal(doc):
    out = gv(["literal"], input=json.dumps(doc))
    return out.strip()


def seg_path(p):
    """"/a/0" -> [[97],[48]]"""
    if not p:
        return []
    return [[ord(c) for c in s] for s in p.split("/")[1:]]


REJECTS = [
    ("unterminated.json", '{"a": [1, 2'),
    ("nonstring_key.yaml", "? [1, 2]\n: x\n"),
    ("int_key.yaml", "1: x\n"),
]


def record(tr, cases, wd, want_kinds):
    i = 0
    with open(tr, "w") as f:
        for c in cases:
            if c["kind"] not in want_kinds:
                continue
            i += 1
            if c["kind"] == "doc":
                text = load.cps_str(c["txt"])
                ext = "json" if c["fmt"] in ("json", "pretty") else "yaml"
                paths = [[load.cps_str(s) for s in p["p"]] for p in c["pos"]]
                v = load.validate_loader(wd, "doc." + ext, text, paths)
                lib = load.lib_loader(wd, text)
                t = load.test_loader_same(wd, guard_literal(c["doc"]), text, c["fmt"])
                va = load.to_abstract(v.get("value")) if v.get("ok") else None
                la = load.to_abstract(lib.get("value")) if lib.get("ok") else None
                obs = {"validate": {"ok": bool(v.get("ok") and va is not None), "val": va or {"t": "none"},
                                    "pos": [{"p": seg_path(x["from_path"]), "l": x["l"], "c": x["c"]} for x in v.get("positions", [])],
                                    "spos": [{"p": seg_path(x["path"]), "l": x["l"], "c": x["c"], "rn": x["rn"]} for x in v.get("sarif", [])],
                                    "ppos": [{"p": seg_path(x["path"]), "l": x["l"], "c": x["c"]} for x in v.get("payload", [])]},
                       "lib": {"ok": bool(lib.get("ok") and la is not None), "val": la or {"t": "none"}},
                       "test": {"ok": bool(t.get("ok")), "same": t.get("same", "?")}}
                line = {"i": i, "kind": "doc", "fmt": c["fmt"], "lay": c["lay"], "doc": c["doc"], "txt": c["txt"], "obs": obs,
                        "raw": {"validate": str(v.get("error", ""))[:200], "lib": str(lib.get("error", ""))[:200], "test": str(t.get("error", ""))[:200]}}
            elif c["kind"] == "scalar":
                sp = load.cps_str(c["cp"])
                st = c["style"]
                if st in ("plain", "single", "double"):
                    q = {"plain": "", "single": "'", "double": '"'}[st]
                    text = "v: " + q + sp + q + "\n"
                elif st in ("literal", "folded"):
                    # block scalars with strip chomping: the text, nothing else
                    text = "v: " + ("|-" if st == "literal" else ">-") + "\n  " + sp + "\n"
                else:
                    text = "v: !!" + {"tag-str": "str", "tag-int": "int", "tag-float": "float"}[st] + " " + sp + "\n"
                v = load.validate_loader(wd, "scalar.yaml", text, [])
                lib = load.lib_loader(wd, text)
                t = load.test_loader_types(wd, text.rstrip("\n").split("\n"))

                def ty(o):
                    if not o.get("ok"):
                        return "error"
                    val = o.get("value")
                    if not isinstance(val, dict) or "v" not in val:
                        return "missing"
                    return load.type_of(val["v"])

                def vv(o):
                    if o.get("ok") and isinstance(o.get("value"), dict) and "v" in o["value"]:
                        a = load.to_abstract(o["value"]["v"])
                        if a is not None:
                            return a
                    return {"t": "none"}
                obs = {"validate": {"type": ty(v), "val": vv(v)}, "lib": {"type": ty(lib), "val": vv(lib)},
                       "test": {"type": t.get("type", "error")}}
                line = {"i": i, "kind": "scalar", "cp": c["cp"], "style": c["style"], "obs": obs, "text": text,
                        "raw": {"validate": str(v.get("error", ""))[:200], "lib": str(lib.get("error", ""))[:200], "test": str(t.get("error", ""))[:200]}}
            elif c["kind"] == "escape":
                text = '{"v": "' + load.cps_str(c["cp"]) + '"}\n'
                v = load.validate_loader(wd, "escape.json", text, [])
                lib = load.lib_loader(wd, text)

                def ev(o):
                    if o.get("ok") and isinstance(o.get("value"), dict) and "v" in o["value"]:
                        a = load.to_abstract(o["value"]["v"])
                        if a is not None:
                            return a
                    return {"t": "none"}
                line = {"i": i, "kind": "escape", "cp": c["cp"], "text": text,
                        "obs": {"validate": {"val": ev(v)}, "lib": {"val": ev(lib)}},
                        "raw": {"validate": str(v.get("error", ""))[:200], "lib": str(lib.get("error", ""))[:200]}}
            elif c["kind"] == "tag":
                tag = load.cps_str(c["tag"])
                if c["form"] == "single":
                    payload = {"t": "str", "v": [ord(x) for x in "a.b"]}
                    text = "v: !%s a.b\n" % tag
                else:
                    payload = {"t": "list", "v": [{"t": "str", "v": [120]}, {"t": "str", "v": [121]}]}
                    text = "v: !%s [x, y]\n" % tag
                want = {"t": "map", "k": [[118]], "v": [{"t": "map", "k": [c["long"]], "v": [payload]}]}
                v = load.validate_loader(wd, "tag.yaml", text, [])
                lib = load.lib_loader(wd, text)
                t = load.test_loader_same(wd, guard_literal(want), text, "block")
                va = load.to_abstract(v.get("value")) if v.get("ok") else None
                la = load.to_abstract(lib.get("value")) if lib.get("ok") else None
                obs = {"validate": {"ok": bool(v.get("ok") and va is not None), "val": va or {"t": "none"}},
                       "lib": {"ok": bool(lib.get("ok") and la is not None), "val": la or {"t": "none"}},
                       "test": {"ok": bool(t.get("ok")), "same": t.get("same", "?")}}
                line = {"i": i, "kind": "tag", "tag": c["tag"], "form": c["form"], "payload": payload, "obs": obs, "text": text}
            f.write(json.dumps(line) + "\n")
        if "reject" in want_kinds:
            for name, text in REJECTS:
                i += 1
                v = load.validate_loader(wd, name, text, [])
                lib = load.lib_loader(wd, text)
                t = load.test_loader_types(wd, text.rstrip("\n").split("\n"))
                line = {"i": i, "kind": "reject", "name": name, "text": text,
                        "obs": {"validate": {"ok": bool(v.get("ok"))}, "lib": {"ok": bool(lib.get("ok"))},
                                "test": {"ok": bool(t.get("ok")) and t.get("exit") in (0, 7)}}}
                f.write(json.dumps(line) + "\n")
    return i


def load_cases(res, tier, want_kinds, tag):
    r = tlc("MC_Load", workers=8, timeout=1200, tag="mcload" + tag, heap="6g")
    if r["violated"] or not r["ok"]:
        log(r["out"][-3000:])
        raise ToolError("MC_Load: the serialiser's recorded positions are wrong on the specification")
    res.add("states", r["distinct"])
    res.add("transitions", r["states"])
    cases = [json.loads(t[1]) for t in tlc_tuples(r["out"], "REPLAY")]
    docs = [c for c in cases if c["kind"] == "doc"]
    rest = [c for c in cases if c["kind"] != "doc"]
    if tier == "quick":
        rnd = random.Random(seed())
        docs = rnd.sample(docs, min(len(docs), 160))
    return docs + rest


def judge(res, tr, n, relations, key_of, skip=()):
    r = tlc("TraceLoad", env={"TRACE": tr}, workers=1, timeout=3000, tag="tload" + res.prop, heap="6g")
    if "TRACE-REJECTED" in r["out"] or not r["ok"]:
        log(r["out"][-3000:])
        raise ToolError("TraceLoad did not consume the whole trace")
    res.add("states", r["distinct"])
    res.add("transitions", r["states"])
    lines = {}
    for l in open(tr):
        j = json.loads(l)
        lines[j["i"]] = j
    seen = {}
    for t in tlc_tuples(r["out"], "RELATE"):
        i, verdict, name = t[1], t[2], t[3]
        if (relations and name not in relations) or name in skip:
            continue
        seen[name] = seen.get(name, 0) + 1
        res.add("relations_checked")
        if verdict == "ok":
            res.add("traces_validated_against_impl")
        else:
            res.violation(key_of(name, lines[i]), {"relation": name, "line": lines[i]})
    res.cov["relations"] = seen
    return lines


def key_of(name, line):
    if line["kind"] == "scalar":
        return "scalar:%s:%s:%s" % (name, line["style"], load.cps_str(line["cp"]))
    if line["kind"] == "tag":
        return "tag:%s:%s:%s" % (name, load.cps_str(line["tag"]), line["form"])
    if line["kind"] == "reject":
        return "reject:%s:%s" % (name, line["name"])
    if line["kind"] == "escape":
        return "escape:%s:%s" % (name, load.cps_str(line["cp"]))
    return "doc:%s:%s" % (name, line["fmt"])


def run(tier):
    res = Result("C11", tier, "model_checking")
    res.assumptions = ["typing is asserted for JSON-compatible plain spellings and quoted scalars; other plain spellings only have to load the same through every loader",
                       "strings of the document universe need no escapes; libyaml / serde_yaml / serde_json themselves are trusted"]
    cases = load_cases(res, tier, None, "11")
    wd = cli.Workdir("c11")
    tr = os.path.join(WORK, "trace_C11.ndjson")
    n = record(tr, cases, wd, {"doc", "scalar", "tag", "reject", "escape"})
    wd.close()
    # positions belong to C10
    lines = judge(res, tr, n, None, key_of, skip=("positions", "sarif-regions", "payload-positions"))
    res.add("evaluations", n * 3)
    for i in (1, n // 2):
        if i in lines:
            l = lines[i]
            res.sample({k: l[k] for k in l if k in ("kind", "fmt", "lay", "text", "style", "obs")} | ({"text": load.cps_str(l["txt"])} if "txt" in l else {}))
    os.remove(tr)
    res.cov["rule"] = ("MC_Load: documents x {json, pretty, flow, block} x layout vectors written by GuardLoad.Ser, the scalar spelling "
                       "table x {plain, single, double} and the short-form tag table; every text fed to the validate, test and run_checks "
                       "loaders and judged by TraceLoad")
    return res.finish()


def replay(path):
    case = json.load(open(path))
    print(json.dumps(case)[:3000])
    return 1
