"""C12 - evaluations are isolated: each (rules file, data file) pair stands alone."""
import json, os, random
from common import *
import cli, clitrace, c04


def run(tier):
    res = Result("C12", tier, "model_checking")
    res.assumptions = ["rules files deliberately share rule and variable names (the generators always use r1.., g0.., l1, v1..)",
                       "directory walks: selection by extension and order with --alphabetical / --last-modified are specified by GuardFiles; modification times are distinct"]
    # 1. the driver model: exactly the parsed-rules x data pairs are evaluated, each with the
    #    outcome of that pair alone (MC_Cli.BatchIsUnionOfPairs), for every order and code path
    r = tlc("MC_Cli", cfg="MC_Cli" if tier == "quick" else "MC_Cli_thorough", workers=8, timeout=2400, tag="mccli12", heap="8g")
    if r["violated"] or not r["ok"]:
        log(r["out"][-3000:])
        raise ToolError("MC_Cli: BatchIsUnionOfPairs fails on the driver model")
    res.add("states", r["distinct"])
    res.add("transitions", r["states"])
    # 2. batches of 2-3 rules files x 2-4 data files, in several orders, as files / directories /
    #    payload: every pair judged against Denote of that pair alone (TraceCli)
    n_batches = 16 if tier == "quick" else 250
    rnd = random.Random(seed() + 12)
    wd = cli.Workdir("c12")
    tr = os.path.join(WORK, "trace_C12.ndjson")
    evtrace = os.path.join(WORK, "trace_C12_events.ndjson")
    open(evtrace, "w").close()
    i = 0
    modes = [m for m in clitrace.MODES if m["fmt"] in ("sjson", "junit", "summary", "pjson") and m.get("shows", ["PASS", "FAIL", "SKIP"]) == ["PASS", "FAIL", "SKIP"] and "-v" not in m["args"]]
    with open(tr, "w") as f:
        pairs = clitrace.add_refs(clitrace.gen_pairs(seed() * 31337, n_batches * 8, "full"))
        for b in range(n_batches):
            chunk = pairs[b * 8:(b + 1) * 8]
            nr = rnd.randint(2, 3)
            nd = rnd.randint(2, 4)
            if b % 5 != 4:
                # an evaluation error aborts the whole run and nothing of the batch is shown: most batches are
                # made of rules files that evaluate on their own document (the fifth keeps whatever comes)
                good = [c for q, c in enumerate(chunk)
                        if not clitrace.pick_keys(wd, "b%dg%d" % (b, q), [c["rules"]], [c["data"]])[0].startswith("error")]
                chunk = good + [c for c in chunk if c not in good]
            rules = [{"parse": "ok", "prog": c["prog"], "text": c["rules"]} for c in chunk[:nr]]
            # data files: the documents the rules were generated for and variants of them, so that
            # the same rule has different statuses on different files of the batch
            cdocs = [c["doc"] for c in chunk[:nr]] + [clitrace.mutate_doc(chunk[q % nr]["doc"], rnd) for q in range(6)]
            ctexts = clitrace.render_docs(cdocs)
            pick = clitrace.pick_differing(wd, "b%d" % b, [r["text"] for r in rules], ctexts, nd, rnd, avoid_errors=(b % 5 != 4))
            docs = [cdocs[q] for q in pick]
            texts = [ctexts[q] for q in pick]
            data = [{"load": "ok", "doc": dd, "text": tt} for dd, tt in zip(docs, texts)]
            for rep in range(2):
                rnd.shuffle(rules)
                rnd.shuffle(data)
                mode = modes[(b + rep) % len(modes)]
                entry = "payload" if (b + rep) % 3 == 0 else "files"
                i += 1
                evp = os.path.join(wd.path, "events_%d.ndjson" % i)
                f.write(json.dumps(clitrace.run_job(wd, i, rules, data, [], mode, entry, events=evp)) + "\n")
                with open(evtrace, "a") as ef:
                    ef.write(json.dumps({"e": "begin", "i": i}) + "\n")
                    if os.path.exists(evp):
                        ef.write(open(evp).read())
                    ef.write(json.dumps({"e": "end", "i": i, "ok": True, "check": False, "rules": []}) + "\n")
            # directory arguments with -a: rules directory and data directory
            i += 1
            f.write(json.dumps(dir_job(wd, i, rules, data)) + "\n")
    wd.close()
    lines, bad = clitrace.judge(res, tr, i)
    res.add("evaluations", i)
    res.cov["batches"] = n_batches
    for l in lines[:2]:
        res.sample({"cli_line": {k: l[k] for k in ("mode", "cmd")}, "pairs_shown": len(l["obs"]["shown"])})
    if not os.environ.get("VERIF_KEEP"): os.remove(tr)
    # 3. a fresh RootScope per pair and nothing served from another pair's cache / memo: the
    #    hook events of the batch runs themselves (pair_begin must be followed by root_scope_new)
    #    and of library evaluations
    cli_events(res, evtrace)
    c04.memo_trace(res, tier, 600 if tier == "quick" else 8000, ["full"], seed_mul=86028121)
    # 4. the test cases inside one `cfn-guard test` file: every case judged against Denote of its own
    #    input (TraceTest), inputs chosen so that the same rule differs between the cases of a file,
    #    plus the hook events of those runs (a fresh RootScope per test case)
    import c16
    c16.run_trace(res, tier)
    # 5. which files a run reads from directory arguments and in which order (GuardFiles)
    import files
    files.check(res, tier)
    res.cov["rule"] = ("MC_Cli.BatchIsUnionOfPairs over all driver scenarios; batches of 2-3 generated rules files x 2-4 documents in "
                       "shuffled orders as files, directories (-a) and payload lists, every pair of the batch judged against Denote of "
                       "that pair alone; hook traces: one fresh RootScope per evaluation and no cache hit / memo read before a computation "
                       "in the same scope (TraceMemo); `cfn-guard test` files with 1-4 cases whose inputs make the same rule differ "
                       "between the cases (TraceTest + TraceMemo over the test runs' hook events); directory arguments: MC_Files over every small tree, "
                       "enumerated and random trees (awkward names, modification times unrelated to names) built on disk, files read and pair order "
                       "with --alphabetical and --last-modified validated by TraceFiles")
    return res.finish()


def cli_events(res, evtrace):
    nev = sum(1 for _ in open(evtrace))
    r = tlc("TraceMemo", env={"TRACE": evtrace}, workers=1, timeout=3000, tag="tmemo_cli" + res.prop, heap="6g")
    res.add("states", r["distinct"])
    res.add("transitions", r["states"])
    if "TRACE-REJECTED" in r["out"] or not r["ok"]:
        rej = tlc_tuples(r["out"], "TRACE-REJECTED")
        at = rej[0][1] if rej else 0
        evs = open(evtrace).read().split("\n")
        res.violation("scope-discipline:cli-event-not-allowed-by-GuardMachine",
                      {"rejected_event": evs[at - 1] if at else "", "context": evs[max(0, at - 12):at + 2]})
    else:
        res.add("hook_events_validated", nev)
    npairs = sum(1 for l in open(evtrace) if '"pair_begin"' in l)
    res.cov["cli_pairs_observed"] = npairs
    if npairs == 0:
        raise ToolError("no pair_begin event observed (hooks not compiled in?)")
    os.remove(evtrace)


def dir_job(wd, i, rules, data):
    """-r <dir> -d <dir> -a: files are walked alphabetically"""
    base = "j%d" % i
    for k, r in enumerate(rules):
        wd.write("%s/rules/r%d.guard" % (base, k + 1), r["text"])
    for k, d in enumerate(data):
        wd.write("%s/data/d%d.json" % (base, k + 1), d["text"])
    mode = {"fmt": "sjson", "args": ["--structured", "-o", "json", "-S", "none", "-a"]}
    args = ["validate", "-r", os.path.join(wd.path, base, "rules"), "-d", os.path.join(wd.path, base, "data")] + mode["args"]
    rc, so, se = cli.run(args)
    data_names = [os.path.realpath(os.path.join(wd.path, base, "data", "d%d.json" % (k + 1))) for k in range(len(data))]
    rules_names = ["r%d.guard" % (k + 1) for k in range(len(rules))]
    line = {"i": i, "mode": {"fmt": "sjson", "entry": "dirs", "shows": ["PASS", "FAIL", "SKIP"]},
            "rules": [{"parse": r["parse"], "prog": r["prog"]} for r in rules],
            "data": [{"load": d["load"], "doc": d["doc"]} for d in data], "params": [], "params_used": True}
    line["obs"] = clitrace.extract(mode, rc, so, se, rules_names, data_names)
    line["cmd"] = {"args": [a.replace(wd.path + "/", "") for a in args], "stderr": se[:700], "stdout_head": so[:300]}
    return line


def replay(path):
    case = json.load(open(path))
    print(json.dumps(case)[:3000])
    return 1
