"""C12 - evaluations are isolated: each (rules file, data file) pair stands alone."""
import json, os, random
from common import *
import cli, clitrace, c04


def run(tier):
    res = Result("C12", tier, "model_checking")
    res.assumptions = ["rules files deliberately share rule and variable names (the generators always use r1.., g0.., l1, v1..)",
                       "directory walks are exercised with -a (alphabetical); -m (last modified) only orders the same files"]
    # 1. the driver model: exactly the parsed-rules x data pairs are evaluated, each with the
    #    outcome of that pair alone (MC_Cli.BatchIsUnionOfPairs), for every order and code path
    r = tlc("MC_Cli", cfg="MC_Cli" if tier == "quick" else "MC_Cli_thorough", workers=8, timeout=2400, tag="mccli12", heap="8g")
    if r["violated"] or not r["ok"]:
        log(r["out"][-3000:])
        raise ToolError("MC_Cli: BatchIsUnionOfPairs fails on the driver model")
    res.add("states", r["distinct"])
    res.add("transitions", r["states"])
    # 2. batches of 2-3 rules files x 2-4 data files, in several orders, as files / directories /
    #    payload: every pair judged against Denote of that pair alone (TraceCli)
    n_batches = 16 if tier == "quick" else 250
    rnd = random.Random(seed() + 12)
    wd = cli.Workdir("c12")
    tr = os.path.join(WORK, "trace_C12.ndjson")
    i = 0
    modes = [m for m in clitrace.MODES if m["fmt"] in ("sjson", "junit", "summary", "pjson") and m.get("shows", ["PASS", "FAIL", "SKIP"]) == ["PASS", "FAIL", "SKIP"] and "-v" not in m["args"]]
    with open(tr, "w") as f:
        pairs = clitrace.gen_pairs(seed() * 31337, n_batches * 4, "full")
        for b in range(n_batches):
            chunk = pairs[b * 4:(b + 1) * 4]
            nr = rnd.randint(2, 3)
            nd = rnd.randint(2, 4)
            rules = [{"parse": "ok", "prog": c["prog"], "text": c["rules"]} for c in chunk[:nr]]
            data = [{"load": "ok", "doc": c["doc"], "text": c["data"]} for c in chunk[:nd]]
            for rep in range(2):
                rnd.shuffle(rules)
                rnd.shuffle(data)
                mode = modes[(b + rep) % len(modes)]
                entry = "payload" if (b + rep) % 3 == 0 else "files"
                i += 1
                f.write(json.dumps(clitrace.run_job(wd, i, rules, data, [], mode, entry)) + "\n")
            # directory arguments with -a: rules directory and data directory
            i += 1
            f.write(json.dumps(dir_job(wd, i, rules, data)) + "\n")
    wd.close()
    lines, bad = clitrace.judge(res, tr, i)
    res.add("evaluations", i)
    res.cov["batches"] = n_batches
    for l in lines[:2]:
        res.sample({"cli_line": {k: l[k] for k in ("mode", "cmd")}, "pairs_shown": len(l["obs"]["shown"])})
    os.remove(tr)
    # 3. a fresh RootScope per pair and nothing served from another pair's cache / memo
    c04.memo_trace(res, tier, 600 if tier == "quick" else 8000, ["full"], seed_mul=86028121)
    res.cov["rule"] = ("MC_Cli.BatchIsUnionOfPairs over all driver scenarios; batches of 2-3 generated rules files x 2-4 documents in "
                       "shuffled orders as files, directories (-a) and payload lists, every pair of the batch judged against Denote of "
                       "that pair alone; hook traces: one fresh RootScope per evaluation and no cache hit / memo read before a computation "
                       "in the same scope (TraceMemo)")
    return res.finish()


def dir_job(wd, i, rules, data):
    """-r <dir> -d <dir> -a: files are walked alphabetically"""
    base = "j%d" % i
    for k, r in enumerate(rules):
        wd.write("%s/rules/r%d.guard" % (base, k + 1), r["text"])
    for k, d in enumerate(data):
        wd.write("%s/data/d%d.json" % (base, k + 1), d["text"])
    mode = {"fmt": "sjson", "args": ["--structured", "-o", "json", "-S", "none", "-a"]}
    args = ["validate", "-r", os.path.join(wd.path, base, "rules"), "-d", os.path.join(wd.path, base, "data")] + mode["args"]
    rc, so, se = cli.run(args)
    data_names = [os.path.realpath(os.path.join(wd.path, base, "data", "d%d.json" % (k + 1))) for k in range(len(data))]
    rules_names = ["r%d.guard" % (k + 1) for k in range(len(rules))]
    line = {"i": i, "mode": {"fmt": "sjson", "entry": "dirs", "shows": ["PASS", "FAIL", "SKIP"]},
            "rules": [{"parse": r["parse"], "prog": r["prog"]} for r in rules],
            "data": [{"load": d["load"], "doc": d["doc"]} for d in data], "params": [], "params_used": True}
    line["obs"] = clitrace.extract(mode, rc, so, se, rules_names, data_names)
    line["cmd"] = {"args": [a.replace(wd.path + "/", "") for a in args], "stderr": se[:700], "stdout_head": so[:300]}
    return line


def replay(path):
    case = json.load(open(path))
    print(json.dumps(case)[:3000])
    return 1
