"""C09 - the structured report partitions the rules exactly as they were evaluated."""
import json, os
from common import *
import core, c01

REL_KEYS = {"full": "check-differs-from-specification (kind / custom message / from / to of a recorded check)", "report": "report-differs-from-record", "status": "file-status-law", "partition": "partition-law",
            "report-badjson": "report-not-json", "report-panic": "report-builder-panic", "report-err": "report-error"}


def report_file(res, tr, n, label, relations, min_share=10):
    """TraceReport over one recorded trace file (lines of record-eval --full)"""
    r = tlc("TraceReport", env={"TRACE": tr}, workers=1, timeout=3000, tag="trep" + res.prop, heap="6g")
    if "TRACE-REJECTED" in r["out"] or not r["ok"]:
        log(r["out"][-3000:])
        raise ToolError("TraceReport did not consume the whole trace")
    lines = open(tr).read().split("\n")
    res.add("states", r["distinct"])
    res.add("transitions", r["states"])
    verdicts = judge_lines(r["out"])
    if len(verdicts) != n:
        raise ToolError("TraceReport judged %d of %d lines" % (len(verdicts), n))
    rel = tlc_tuples(r["out"], "RELATE")
    seen = {}
    for t in rel:
        i, verdict, name = t[1], t[2], t[3]
        if name not in relations and not name.startswith("report-"):
            continue
        seen[name] = seen.get(name, 0) + 1
        res.add("relations_checked")
        if verdict == "ok":
            continue
        line = json.loads(lines[i - 1])
        res.violation(REL_KEYS.get(name, name), {"line": line, "relation": name,
                                                  "rendered": gv(["render"], input=json.dumps(line))[:6000]})
    for (i, verdict, payloads) in verdicts:
        if verdict == "ok":
            res.add("traces_validated_against_impl")
        if i == 2:
            line = json.loads(lines[i - 1])
            res.sample({"prog": line["prog"], "doc": line["doc"], "report": line["obs"].get("report")})
    res.cov.setdefault("relations", {})[label] = seen
    for need in relations:
        if seen.get(need, 0) < n // min_share:
            raise ToolError("relation %s evaluated on too few lines (vacuous)" % need)


def report_trace(res, tier, n, cfgs, relations, seed_mul=49979687):
    total = 0
    for ci, cfg in enumerate(cfgs):
        tr = os.path.join(WORK, "trace_%s_report_%s.ndjson" % (res.prop, cfg))
        gv(["record-eval", "--seed", seed() * seed_mul + ci, "--n", n, "--cfg", cfg, "--full", 1, "--out", tr])
        report_file(res, tr, n, cfg, relations)
        total += n
        os.remove(tr)
    # the variable-key family (`map.%v...`), enumerated
    tr = os.path.join(WORK, "trace_%s_report_vkey.ndjson" % res.prop)
    gv(["record-vkey", "--full", 1, "--out", tr])
    nv = sum(1 for l in open(tr) if l.strip())
    report_file(res, tr, nv, "vkey", relations, min_share=20)
    total += nv
    os.remove(tr)
    res.add("evaluations", total)


def _gac(key, op, rhs=None):
    return {"c": "gac", "q": [{"p": "key", "k": [ord(x) for x in key]}], "all": True, "neg": False, "op": op, "on": False,
            "rhs": [] if rhs is None else [{"r": "val", "v": {"t": "int", "v": rhs}}]}


ALL_SKIP = {"parse": "ok",
            "prog": {"lets": [], "prules": [],
                     "rules": [{"n": "never_a", "w": [[_gac("no_such_key_zq", "exists")]], "lets": [], "b": [[_gac("x", "eq", 1)]]},
                               {"n": "never_b", "w": [[_gac("no_such_key_zq", "exists")]], "lets": [], "b": [[_gac("y", "eq", 1)]]}]},
            "text": "rule never_a when no_such_key_zq exists {\n  x == 1\n}\nrule never_b when no_such_key_zq exists {\n  y == 1\n}\n"}


def cli_partition(res, tier):
    """the command line's structured report (json / yaml) for 1-3 rules files against one data file: the
    compliant / not_applicable / not_compliant lists are the PASS / SKIP / FAIL rules of Denote (TraceCli)"""
    import random
    import cli, clitrace
    n = 30 if tier == "quick" else 400
    rnd = random.Random(seed() + 909)
    wd = cli.Workdir("c09")
    tr = os.path.join(WORK, "trace_C09_cli.ndjson")
    modes = [m for m in clitrace.MODES if m["fmt"] in ("sjson", "syaml")]
    i = 0
    with open(tr, "w") as f:
        for ci, cfg in enumerate(["core", "full"]):
            pairs = clitrace.gen_pairs(seed() * 8117 + ci, n, cfg)
            for k in range(0, len(pairs) - 2, 3):
                nr = 1 + rnd.randrange(3)
                rules = [{"parse": "ok", "prog": c["prog"], "text": c["rules"]} for c in pairs[k:k + nr]]
                if k % 2 == 0:
                    # a rules file all of whose rules are skipped (its names belong in not_applicable)
                    rules.insert(rnd.randrange(len(rules) + 1), dict(ALL_SKIP))
                data = [{"load": "ok", "doc": pairs[k]["doc"], "text": pairs[k]["data"]}]
                for mode in modes:
                    i += 1
                    f.write(json.dumps(clitrace.run_job(wd, i, rules, data, [], mode, "files")) + "\n")
    wd.close()
    clitrace.judge(res, tr, i)
    res.add("evaluations", i)
    os.remove(tr)


def run(tier):
    res = Result("C09", tier, "model_checking")
    res.assumptions = ["distinct rule names (the property's quantifier)",
                       "the 'query for block clause did not retrieve any value' item is compared modulo its presence (it depends on Filter records that are not part of the derived record)"]
    r = tlc("MC_Report", workers=4, timeout=600, tag="mcrep")
    if not r["ok"]:
        log(r["out"][-3000:])
        raise ToolError("MC_Report: combination laws fail on the specification")
    res.add("states", r["distinct"])
    res.add("transitions", r["states"])
    report_trace(res, tier, 1200 if tier == "quick" else 15000, ["core", "full"], ["report", "status", "partition", "full"])
    cli_partition(res, tier)
    res.cov["rule"] = ("MC_Report: union/status laws over all combinations of three abstract reports; R: random programs - the "
                       "library's structured report must equal GuardReport.Simplify of the record of the same run, obey the "
                       "partition and status laws against the evaluated (rule, status) list; every recorded check (kind, custom message, from, to) "
                       "equals the one the specification derives; the command line's --structured json / yaml report of 1-3 rules files against "
                       "a data file lists exactly the PASS / SKIP / FAIL rules of Denote (TraceCli)")
    return res.finish()


def replay(path):
    return c01.replay(path)
