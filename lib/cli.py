"""Driving the real cfn-guard binary and reading back what it prints (C05-C07, C10-C12, C16, C17).

Nothing in here knows the semantics of rules: it runs the binary in a given mode and extracts,
per (data file [, rules file]), what the output *shows*: statuses and rule name sets."""
import json, os, re, shutil, subprocess, xml.etree.ElementTree as ET
from common import *

_bin = None


def guard_bin():
    global _bin
    if _bin is None:
        _bin = build_bin()
    return _bin


def run(args, stdin=None, cwd=None, timeout=60, env=None):
    """-> (exit code, stdout, stderr); exit -9 on timeout"""
    e = dict(os.environ)
    e["NO_COLOR"] = "1"
    e["RUST_BACKTRACE"] = "0"
    if env:
        e.update(env)
    try:
        p = subprocess.run([guard_bin()] + args, input=stdin, stdout=subprocess.PIPE, stderr=subprocess.PIPE,
                           text=True, cwd=cwd, timeout=timeout, env=e)
        return p.returncode, p.stdout, p.stderr
    except subprocess.TimeoutExpired:
        return -9, "", "TIMEOUT"


ANSI = re.compile(r"\x1b\[[0-9;]*m")


def strip_ansi(s):
    return ANSI.sub("", s)


class Workdir:
    """scratch directory under /verif/.work (never /tmp), removed on close"""

    def __init__(self, tag):
        self.path = os.path.join(WORK, "cli_" + tag)
        shutil.rmtree(self.path, ignore_errors=True)
        os.makedirs(self.path)

    def write(self, name, text):
        p = os.path.join(self.path, name)
        os.makedirs(os.path.dirname(p), exist_ok=True)
        with open(p, "w") as f:
            f.write(text)
        return p

    def close(self):
        shutil.rmtree(self.path, ignore_errors=True)


def yaml_to_json(text):
    rc, out = sh([GV, "yaml2json"], input=text, timeout=60)
    if rc != 0:
        return None
    try:
        return json.loads(out)
    except ValueError:
        return None


def rule_short(name):
    """rule names are printed as <rules file>/<rule> for the implicit default rule and in tables"""
    return name.rsplit("/", 1)[-1] if "/" in name else name


def reports_from_structured(j):
    """list of FileReport JSON -> {data name: {"status", "pass", "fail", "skip"}}"""
    out = {}
    for rep in j:
        fails = []
        for it in rep.get("not_compliant", []):
            if "Rule" in it:
                fails.append(it["Rule"]["name"])
            else:
                fails.append("?" + list(it.keys())[0])
        out[rep["name"]] = {"status": rep["status"], "pass": sorted(rep.get("compliant", [])),
                            "fail": sorted(set(fails)), "skip": sorted(rep.get("not_applicable", [])),
                            "n_fail_items": len(rep.get("not_compliant", []))}
    return out


def count_checks(items):
    """number of leaf failing checks in a not_compliant list"""
    n = 0
    for it in items:
        (k, v), = it.items()
        if k == "Rule":
            n += count_checks(v["checks"])
        elif k == "Disjunctions":
            n += count_checks(v["checks"])
        else:
            n += 1
    return n


def split_json_docs(text):
    """JSON documents embedded in console output (each starts with `{` or `[` at the beginning
    of a line; other text - e.g. the CloudFormation-aware console report - is skipped) -> list"""
    dec = json.JSONDecoder()
    docs, i, n = [], 0, len(text)
    while i < n:
        if text[i] in "{[" and (i == 0 or text[i - 1] == "\n" or (docs and text[i - 1] in "}]")):
            try:
                obj, j = dec.raw_decode(text, i)
                docs.append(obj)
                i = j
                continue
            except ValueError:
                pass
        nl = text.find("\n", i)
        if nl < 0:
            break
        i = nl + 1
    return docs


def parse_junit(text):
    """-> {data name: {rules file name: "pass"|"skip"|"fail"|"error"}}, well-formed?"""
    try:
        root = ET.fromstring(text)
    except ET.ParseError:
        return None
    out = {}
    for suite in root.iter("testsuite"):
        cases = {}
        for tc in suite.iter("testcase"):
            st = tc.get("status")
            if tc.find("failure") is not None:
                st = "fail"
            elif tc.find("error") is not None:
                st = "error"
            cases[tc.get("name")] = st
        out[suite.get("name")] = cases
    return out


SUMMARY_HEAD = re.compile(r"^(.*) Status = (PASS|FAIL|SKIP)$")
SUMMARY_ROW = re.compile(r"^(\S.*?)\s{2,}(PASS|FAIL|SKIP)$")


def parse_summary(text):
    """console summary table(s) -> list of {"data", "status", "rows": {rule display name: status}} in print order"""
    blocks, cur = [], None
    for line in strip_ansi(text).split("\n"):
        line = line.rstrip()
        m = SUMMARY_HEAD.match(line)
        if m:
            cur = {"data": m.group(1), "status": m.group(2), "rows": {}}
            blocks.append(cur)
            continue
        if cur is not None:
            if line == "---":
                cur = None
                continue
            m = SUMMARY_ROW.match(line)
            if m:
                cur["rows"][m.group(1)] = m.group(2)
    return blocks
