"""C03 - negation is honoured (DESIGN section 5, C03)."""
from common import *
import core, c01


def accept_e1(mm):
    if mm["kind"] == "relation-neg-vs-opneg":
        return "e1:relation-neg-vs-opneg"
    if mm["kind"] == "spec-vs-impl" and (mm["neg"] or mm["on"]):
        return "e1:negated-clause-verdict"
    return None


def run(tier):
    res = Result("C03", tier, "model_checking")
    res.assumptions = ["same trusted base as C01",
                       "operators without an operator-level negation (< <= > >=) are related to their dual only for a single comparable value (the property's own restriction)"]
    core.e1(res, tier, accept_e1)
    n = 400 if tier == "quick" else 5000
    core.record_and_judge(res, tier, n, ["core", "full"], c01.classify, spec="TraceNeg", recorder="record-neg",
                          expect_relations=True)
    res.cov["rule"] = ("E1: every single-clause state of MC_E1 in its 2-4 polarities (laws checked by TLC on the spec, "
                       "each polarity replayed, relation re-checked between implementation runs); R: random programs with "
                       "one clause (anywhere) negated in both ways plus named-rule negation, laws evaluated by TraceNeg on the "
                       "implementation's observations")
    return res.finish()


def replay(path):
    return c01.replay(path)
