"""C07 - the verdict is independent of output format, verbosity and entry point."""
import json, os, random
from common import *
import cli, clitrace


def lib_line(wd, i, r, d):
    """the library entry point (run_checks) used by the Lambda / FFI front ends"""
    rp = wd.write("j%d/r1.guard" % i, r["text"])
    dp = wd.write("j%d/d1.json" % i, d["text"])
    rc, out = sh([GV, "run", "--rules", rp, "--data", dp], timeout=120)
    line = {"i": i, "mode": {"fmt": "ojson", "entry": "lib", "shows": ["PASS", "FAIL", "SKIP"]},
            "rules": [{"parse": r["parse"], "prog": r["prog"]}], "data": [{"load": d["load"], "doc": d["doc"]}],
            "params": [], "params_used": True}
    obs = {"exit": 0, "wf": True, "view": "perpair", "shown": [], "nresults": 0, "panic": False}
    txt = out.strip()
    if txt.startswith("ERR "):
        obs["exit"] = 255
    elif txt.startswith("PANIC "):
        obs["exit"] = 1101
        obs["panic"] = True
    else:
        try:
            rep = cli.reports_from_structured([json.loads(txt)])
            for name, x in rep.items():
                obs["shown"].append({"r": 1, "d": 1, "has_rules": True, "file": x["status"], "PASS": x["pass"],
                                     "FAIL": x["fail"], "SKIP": x["skip"]})
                obs["exit"] = 19 if x["status"] == "FAIL" else 0
        except ValueError:
            obs["wf"] = False
    line["obs"] = obs
    line["cmd"] = {"args": ["run_checks(verbose=false)"], "stderr": "", "stdout_head": txt[:300]}
    return line


def xml_cases():
    def cps(t):
        return [ord(ch) for ch in t]
    out = []
    for msg in ("enc & log", "&", "R&D at 100%", "a &amp; b", "x && y"):
        prog = {"lets": [], "prules": [], "rules": [{"n": "r1", "w": [], "lets": [], "b": [[
            {"c": "gac", "q": [{"p": "key", "k": cps("nope")}], "all": True, "neg": False, "op": "exists", "on": False, "rhs": [], "msg": msg}]]}]}
        out.append((prog, {"t": "map", "k": [cps("a")], "v": [{"t": "int", "v": 1}]}))
    # a key with `&` in the reported path, numeric values only
    prog = {"lets": [], "prules": [], "rules": [{"n": "r1", "w": [], "lets": [], "b": [[
        {"c": "gac", "q": [{"p": "key", "k": cps("cpu&mem")}], "all": True, "neg": False, "op": "eq", "on": False,
         "rhs": [{"r": "val", "v": {"t": "int", "v": 1}}]}]]}]}
    out.append((prog, {"t": "map", "k": [cps("cpu&mem")], "v": [{"t": "int", "v": 2}]}))
    return out


def run(tier):
    res = Result("C07", tier, "model_checking")
    res.assumptions = ["a configuration only has to agree on what it shows (--show-summary fail shows only the FAIL set; -S none only the exit code)",
                       "when a rules file fails to parse and another evaluation FAILs the exit code is compared with the GuardCli machine of that code path (5 or 19)",
                       "JUnit shows one case per (data file, rules file): compared at file-status level"]
    n_inputs = 25 if tier == "quick" else 400
    rnd = random.Random(seed())
    wd = cli.Workdir("c07")
    tr = os.path.join(WORK, "trace_C07.ndjson")
    i = 0
    modes_seen = {}
    with open(tr, "w") as f:
        for ci, cfg in enumerate(["core", "full"]):
            pairs = clitrace.gen_pairs(seed() * 9973 + ci, n_inputs, cfg)
            for k in range(0, len(pairs) - 1, 2):
                a, b = pairs[k], pairs[k + 1]
                rules = [{"parse": "ok", "prog": a["prog"], "text": a["rules"]}]
                data = [{"load": "ok", "doc": a["doc"], "text": a["data"]}]
                shape = rnd.randrange(4)
                if shape >= 1:
                    data.append({"load": "ok", "doc": b["doc"], "text": b["data"]})
                if shape >= 2:
                    rules.append({"parse": "ok", "prog": b["prog"], "text": b["rules"]})
                if shape == 3 and rnd.random() < 0.5:
                    rules.insert(rnd.randrange(len(rules) + 1), {"parse": "broken", "text": clitrace.BROKEN_RULES})
                for mode in clitrace.MODES:
                    for entry in clitrace.ENTRIES:
                        if entry == "stdin" and len(data) != 1:
                            continue
                        if rnd.random() < (0.55 if tier == "quick" else 0.0) and not (mode["fmt"] == "sjson" and entry == "files"):
                            continue
                        i += 1
                        line = clitrace.run_job(wd, i, rules, data, [], mode, entry)
                        f.write(json.dumps(line) + "\n")
                        mk = mode["fmt"] + "/" + entry
                        modes_seen[mk] = modes_seen.get(mk, 0) + 1
                if len(rules) == 1 and len(data) == 1:
                    i += 1
                    f.write(json.dumps(lib_line(wd, i, rules[0], data[0])) + "\n")
                    modes_seen["lib"] = modes_seen.get("lib", 0) + 1
        # texts that XML output has to escape: failing checks whose custom message or key name holds
        # `&`, in every structured format (well-formed output, same verdicts)
        for prog, doc in xml_cases():
            lines_ = json.dumps({"prog": prog, "doc": doc})
            r_ = json.loads(gv(["render-many"], input=lines_).strip().split("\n")[0])
            rules = [{"parse": "ok", "prog": prog, "text": r_["rules"]}]
            data = [{"load": "ok", "doc": doc, "text": r_["data"]}]
            for mode in clitrace.MODES:
                if mode["fmt"] in ("junit", "sjson", "sarif", "syaml"):
                    i += 1
                    f.write(json.dumps(clitrace.run_job(wd, i, rules, data, [], mode, "files")) + "\n")
                    modes_seen["xml:" + mode["fmt"]] = modes_seen.get("xml:" + mode["fmt"], 0) + 1
    wd.close()
    lines, bad = clitrace.judge(res, tr, i)
    res.add("evaluations", i)
    res.cov["configurations_run"] = modes_seen
    res.cov["input_sets"] = n_inputs
    for l in lines[:2]:
        res.sample({"cli_line": {k: l[k] for k in ("mode", "cmd")}, "exit": l["obs"]["exit"], "shown": l["obs"]["shown"][:2]})
    os.remove(tr)
    res.cov["rule"] = ("random rule files x documents, 1-2 rules files (optionally one that does not parse) x 1-2 data files, run "
                       "through the real binary in every output format / flag set / entry point (files, stdin, payload, run_checks); "
                       "each run judged by TraceCli against Denote of every pair and the GuardCli machine")
    return res.finish()


def replay(path):
    case = json.load(open(path))
    print(json.dumps(case)[:3000])
    return 1
