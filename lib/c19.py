"""C19 - generated rules describe the template they were generated from."""
import json, os
from common import *


def cps_str(cp):
    return "".join(chr(c) for c in cp)


# ---- the template, read in Python for the classification of findings only ------------------

def mget(m, key):
    if m.get("t") != "map":
        return None
    for k, v in zip(m["k"], m["v"]):
        if cps_str(k) == key:
            return v
    return None


def resources_of_type(doc, ty):
    res = mget(doc, "Resources")
    out = []
    if res and res.get("t") == "map":
        for r in res["v"]:
            t = mget(r, "Type")
            if t and t.get("t") == "str" and cps_str(t["v"]) == ty:
                out.append(r)
    return out


def prop_sets(doc, ty):
    sets = []
    for r in resources_of_type(doc, ty):
        p = mget(r, "Properties")
        sets.append(None if not p or p.get("t") != "map" else frozenset(cps_str(k) for k in p["k"]))
    return sets


def values_of(doc, ty, prop):
    out = []
    for r in resources_of_type(doc, ty):
        p = mget(r, "Properties")
        if p and p.get("t") == "map":
            v = mget(p, prop)
            if v is not None:
                out.append(v)
    return out


def nested_strings(v, top=True):
    """strings inside a list / map value (rendered by serde_json inside the printed literal)"""
    if v.get("t") == "str":
        return [] if top else [cps_str(v["v"])]
    if v.get("t") == "list":
        return [s for x in v["v"] for s in nested_strings(x, False)]
    if v.get("t") == "map":
        return [s for x in v["v"] for s in nested_strings(x, False)] + ([] if top and False else [cps_str(k) for k in v["k"]])
    return []


def needs_json_escape(s):
    return any(c in '\\"' or ord(c) < 0x20 for c in s)


def has_digits_property(doc, ty=None):
    """a property whose name consists of digits: printed unquoted it reads as a list index"""
    tys = [ty] if ty else sorted({cps_str(r["type"]) for r in doc_types(doc)})
    return any(s and any(p.isdigit() for p in s) for t in tys for s in prop_sets(doc, t))


def doc_types(doc):
    out = []
    try:
        res = doc["v"][doc["k"].index([ord(c) for c in "Resources"])]
        for r in res["v"]:
            if r.get("t") == "map" and [84, 121, 112, 101] in r["k"]:
                tv = r["v"][r["k"].index([84, 121, 112, 101])]
                if tv.get("t") == "str":
                    out.append({"type": tv["v"]})
    except (KeyError, ValueError, TypeError):
        pass
    return out


def type_has_dotted_property(doc, ty):
    return any(s and any("." in p for p in s) for s in prop_sets(doc, ty))


def canon(v):
    """abstract value -> comparable Python value, map key order aside"""
    t = v.get("t")
    if t == "map":
        return ("map", tuple(sorted((cps_str(k), canon(x)) for k, x in zip(v["k"], v["v"]))))
    if t == "list":
        return ("list", tuple(canon(x) for x in v["v"]))
    if t == "str":
        return ("str", cps_str(v["v"]))
    return (t, v.get("v"))


def classify_properties(line):
    """which printed clauses differ from the template, and is each difference a recorded finding?"""
    doc = line["doc"]
    keys = set()
    for r in line["out"]["rules"]:
        ty = cps_str(r["type"])
        want_props = set()
        for s in prop_sets(doc, ty):
            if s:
                want_props |= s
        got_props = {cps_str(p["p"]) for p in r["props"]}
        for p in r["props"]:
            name = cps_str(p["p"])
            want = {canon(v) for v in values_of(doc, ty, name)}
            got = {canon(v) for v in p["vals"]}
            if want != got or name not in want_props:
                vals = values_of(doc, ty, name)
                if any(needs_json_escape(s) for v in vals for s in nested_strings(v)):
                    keys.add("properties:string-inside-a-list-or-map-value-needing-a-json-escape")
                elif type_has_dotted_property(doc, ty):
                    keys.add("shape:property-name-with-a-dot")
                elif has_digits_property(doc, ty):
                    keys.add("shape:property-name-of-digits")
                else:
                    keys.add("properties:value-differs:%s" % sorted(want ^ got)[0][0])
        for name in want_props - got_props:
            if "." in name:
                keys.add("shape:property-name-with-a-dot")
            elif name.isdigit():
                keys.add("shape:property-name-of-digits")
            else:
                keys.add("properties:clause-missing")
    return keys or {"properties:unexplained"}


def classify_self(line, expect):
    """the template fails a printed rule although the printed structure is what the specification derives"""
    doc = line["doc"]
    spec_pass, uniform, nolist = expect
    if has_digits_property(doc):
        return {"shape:property-name-of-digits"}
    if spec_pass:
        return {"self-validates:implementation-fails-where-the-specification-passes"}
    keys = set()
    failing = [n for n, s in line["obs"].get("rules", []) if s != "PASS"]
    by_rule = {r["rule"]: r for r in line["out"]["rules"]}
    for n in failing:
        r = by_rule.get(n)
        if r is None:
            keys.add("self-validates:unknown-rule")
            continue
        ty = cps_str(r["type"])
        sets = prop_sets(doc, ty)
        if len(set(sets)) > 1 or None in sets:
            keys.add("self-validates:property-missing-on-a-resource-of-the-type")
            continue
        lists = False
        for p in r["props"]:
            vals = values_of(doc, ty, cps_str(p["p"]))
            if len({json.dumps(v) for v in vals}) > 1 and any(v.get("t") == "list" for v in vals):
                lists = True
        if lists:
            keys.add("self-validates:list-valued-property-among-several-values")
        else:
            keys.add("self-validates:unexplained")
    return keys or {"self-validates:unexplained"}


def brief(line):
    return {"template": line["template"], "printed": line["out"].get("text", "")[:3000], "stderr": line["out"].get("stderr", "")[:300],
            "statuses_on_template": line["obs"], "mutations": [{"type": cps_str(m["type"]), "property": cps_str(m["prop"]), "obs": m["obs"]} for m in line.get("muts", [])][:3]}


def validate(res, tr, label):
    r = tlc("TraceRulegen", env={"TRACE": tr}, workers=1, timeout=3000, tag="tr_C19", heap="6g")
    if "TRACE-REJECTED" in r["out"] or not r["ok"]:
        log(r["out"][-3000:])
        raise ToolError("TraceRulegen did not consume the whole trace")
    res.add("states", r["distinct"])
    res.add("transitions", r["states"])
    lines = {}
    for l in open(tr):
        if l.strip():
            j = json.loads(l)
            lines[j["i"]] = j
    out = r["out"]
    expect = {}
    for t in tlc_tuples(out, "RGEXPECT"):
        if t[2] == "self-validates":
            expect[t[1]] = (t[3], t[4], t[5])
    mut_expect = {}
    for t in tlc_tuples(out, "RGEXPECT"):
        if t[2] == "detects-change":
            mut_expect.setdefault(t[1], []).append(t[3])
    for t in tlc_tuples(out, "JUDGE"):
        i, verdict = t[1], t[2]
        if verdict == "ok":
            res.add("traces_validated_against_impl")
        else:
            if has_digits_property(lines[i]["doc"]):
                res.violation("shape:property-name-of-digits", {"spec": t[4] if len(t) > 4 else None, **brief(lines[i])})
            else:
                res.violation("judge:%s:statuses-differ-from-Denote-of-the-printed-rules" % t[3], {"spec": t[4] if len(t) > 4 else None, **brief(lines[i])})
    errs = tlc_tuples(out, "RGERROR")
    res.add("error_reports", len(errs))
    seen = res.cov.setdefault("relations", {})
    broken = {}
    for t in tlc_tuples(out, "RELATE"):
        i, verdict, name = t[1], t[2], t[3]
        res.add("relations_checked")
        seen[name] = seen.get(name, 0) + 1
        if verdict != "ok":
            broken.setdefault(i, []).append(name)
    if not seen.get("self-validates") or not seen.get("detects-change"):
        raise ToolError("TraceRulegen evaluated no self-validates / detects-change relation (vacuous)")
    for i, names in broken.items():
        line = lines[i]
        keys = set()
        structural = False
        for name in set(names):
            if name in ("properties", "shape"):
                keys |= classify_properties(line)
                structural = True
            elif name == "self-validates":
                continue
            elif name == "detects-change":
                spec_says = mut_expect.get(i)
                keys.add("detects-change:" + ("specification-expects-FAIL" if (spec_says is None or all(spec_says)) else "the-printed-design-does-not-notice"))
            else:
                keys.add(name)
        if "self-validates" in names and not structural:
            if i in expect:
                keys |= classify_self(line, expect[i])
            else:
                keys.add("self-validates:unexplained")
        for k in keys:
            res.violation(k, brief(line))
    n = len(lines)
    res.cov.setdefault("templates", {})[label] = n
    return n


def run(tier):
    res = Result("C19", tier, "model_checking")
    res.assumptions = ["resource types and property names are drawn from small pools (4 types, 6 + 3 odd property names); values: strings (incl. "
                       "blanks at the ends, quotes, backslashes, unicode), ints, bools, floats, null, nested lists / maps up to depth 2",
                       "an error report (nothing printed, a message on stderr) is accepted for any template, as the property allows"]
    # 1. the design on the specification: every small template, provisos and witnesses
    r = tlc("MC_Rulegen", env={"MAXRES": "2" if tier == "quick" else "3"}, workers=8, timeout=3000, tag="mcrg", heap="8g")
    if r["violated"] or not r["ok"]:
        log(r["out"][-3000:])
        raise ToolError("MC_Rulegen: SelfValidates / DetectsChange fails on the specification")
    res.add("states", r["distinct"])
    res.add("transitions", r["states"])
    res.cov["spec_templates"] = r["distinct"]
    # 2. spec -> impl: the enumerated templates through the real command
    docs = [t[1] if isinstance(t[1], str) else json.dumps(t[1]) for t in tlc_tuples(r["out"], "REPLAY")]
    if tier != "quick":
        step = max(1, len(docs) // 6000)
        docs = docs[seed() % step::step]
    scratch = os.path.join(WORK, "rg_scratch")
    os.makedirs(scratch, exist_ok=True)
    dp = os.path.join(WORK, "rg_docs.ndjson")
    with open(dp, "w") as f:
        f.write("\n".join(docs) + "\n")
    tr = os.path.join(WORK, "trace_C19_enum.ndjson")
    gv(["replay-rulegen", "--in", dp, "--seed", seed(), "--scratch", scratch, "--out", tr])
    total = validate(res, tr, "enumerated")
    os.remove(tr)
    os.remove(dp)
    # 3. impl -> spec: generated templates (plain and with awkward strings / names)
    n = 250 if tier == "quick" else 5000
    for ci, hard in enumerate([0, 1]):
        tr = os.path.join(WORK, "trace_C19_%d.ndjson" % hard)
        gv(["record-rulegen", "--seed", seed() * 7793 + ci, "--n", n, "--hard", hard, "--scratch", scratch, "--out", tr])
        total += validate(res, tr, "generated" + ("-hard" if hard else ""))
        if ci == 0:
            l = json.loads(open(tr).readline())
            res.sample(brief(l))
        os.remove(tr)
    res.add("evaluations", total)
    res.cov["rule"] = ("MC_Rulegen: SelfValidates / DetectsChange / WellFormed of RGAst over all templates of up to 2 (quick) / 3 resources; every "
                       "enumerated template and generated templates (1-5 resources over 1-3 types) through the real rulegen command; its output "
                       "parsed by the real parser and read back as a structure, evaluated by run_checks on the template and on three one-value "
                       "mutations; TraceRulegen checks structure (one rule per type, names, clauses, values) against RGTypes / RGName / RGVals, the "
                       "statuses against Denote of the printed structure, PASS on the template and FAIL after a change")
    return res.finish()


def replay(path):
    case = json.load(open(path))
    print(json.dumps(case)[:4000])
    return 1
