"""C02 - every composite status follows from its parts (DESIGN section 5, C02)."""
import json, os
from common import *
import core


def cnf_family(res, tier):
    cfg = "MC_Cnf"
    if tier == "quick":
        # the full 3x3 family for two of the seven contexts (rotating with the seed) ...
        cfg_path = os.path.join(SPEC, "MC_Cnf_quick.cfg")
    r = tlc("MC_Cnf", cfg=cfg, workers=8, timeout=2400, tag="cnf", heap="8g",
            env={"CTXS": "" if tier != "quick" else "%d,%d" % (1 + seed() % 7, 1 + (seed() + 3) % 7)})
    if r["violated"] or not r["ok"]:
        log(r["out"][-3000:])
        raise ToolError("MC_Cnf: the combination law fails on the specification")
    cases = os.path.join(WORK, "cnf_cases.ndjson")
    tables, n = core.extract_tlc_tables(r["out"], cases)
    if n < 100:
        raise ToolError("MC_Cnf produced too few cases")
    tp = os.path.join(WORK, "cnf_tables.json")
    json.dump(tables, open(tp, "w"))
    mp = os.path.join(WORK, "cnf_mism.ndjson")
    summ = json.loads(gv(["replay-cnf", "--tables", tp, "--cases", cases, "--out", mp, "--threads", 12]).strip().split("\n")[-1])
    res.add("states", r["distinct"])
    res.add("transitions", r["states"])
    res.add("traces_validated_against_impl", summ["cases"])
    res.add("evaluations", summ["cases"])
    res.add("cnf_family_cases", n)
    with open(cases) as f:
        for i, l in enumerate(f):
            if i in (10, n // 2):
                res.sample({"cnf_case": json.loads(l)})
    for l in open(mp):
        res.violation("cnf-family:record-differs", json.loads(l))
    for p in (cases, tp, mp):
        os.remove(p)


def explain(res, tier):
    n = 1200 if tier == "quick" else 15000
    for ci, cfg in enumerate(["core", "full"]):
        tr = os.path.join(WORK, "trace_C02_%s.ndjson" % cfg)
        gv(["record-eval", "--seed", seed() * 104729 + ci, "--n", n, "--cfg", cfg, "--rtree", 1, "--out", tr])
        r = tlc("TraceRecord", env={"TRACE": tr}, workers=1, timeout=3000, tag="trec", heap="6g")
        if "TRACE-REJECTED" in r["out"] or not r["ok"]:
            log(r["out"][-3000:])
            raise ToolError("TraceRecord did not consume the whole trace")
        ex = tlc_tuples(r["out"], "EXPLAIN")
        if len(ex) != n:
            raise ToolError("TraceRecord explained %d of %d lines" % (len(ex), n))
        lines = open(tr).read().split("\n")
        res.add("states", r["distinct"])
        res.add("transitions", r["states"])
        for t in ex:
            i, verdict, why = t[1], t[2], t[3]
            if verdict == "ok":
                res.add("traces_validated_against_impl")
                res.add("records_explained")
            elif verdict == "skip":
                res.add("evaluations_without_record")
            else:
                line = json.loads(lines[i - 1])
                res.violation("unexplained:" + why.split(":")[-1].strip()[:60],
                              {"line": line, "why": why, "rendered": gv(["render"], input=json.dumps(line))[:6000]})
            if i == 3:
                line = json.loads(lines[i - 1])
                res.sample({"explained_record": {"prog": line["prog"], "doc": line["doc"], "rtree": line["obs"].get("rtree")}})
        res.add("evaluations", n)
        os.remove(tr)
    if res.cov.get("records_explained", 0) < n // 4:
        raise ToolError("too few records explained (vacuous)")


def run(tier):
    res = Result("C02", tier, "model_checking")
    res.assumptions = ["leaves (value checks) are taken as recorded; the harness projection of EventRecord JSON to nodes is trusted"]
    cnf_family(res, tier)
    core.block_family(res, tier)
    explain(res, tier)
    res.cov["rule"] = ("CNF family: every shape up to 3 lines x 3 alternatives with leaves forced to PASS/FAIL/SKIP in the 7 "
                       "combination contexts (TLC checks the combination law on the spec, harness compares the serialised record); "
                       "R: record trees of random programs re-derived node by node by GuardRecord.Explain (TraceRecord)")
    return res.finish()


def replay(path):
    case = json.load(open(path))
    print(json.dumps(case)[:3000])
    return 1
