"""C04 - verdicts do not depend on the order or repetition of clauses and rules."""
import json, os
from common import *
import core, c01


def memo_trace(res, tier, n, cfgs, seed_mul=15485863):
    """hook-event streams validated against GuardMachine (TraceMemo)"""
    for ci, cfg in enumerate(cfgs):
        tr = os.path.join(WORK, "trace_%s_memo_%s.ndjson" % (res.prop, cfg))
        gv(["record-events", "--seed", seed() * seed_mul + ci, "--n", n, "--cfg", cfg, "--out", tr])
        nev = sum(1 for _ in open(tr))
        r = tlc("TraceMemo", env={"TRACE": tr}, workers=1, timeout=3000, tag="tmemo" + res.prop, heap="6g")
        res.add("states", r["distinct"])
        res.add("transitions", r["states"])
        if "TRACE-REJECTED" in r["out"] or not r["ok"]:
            rej = tlc_tuples(r["out"], "TRACE-REJECTED")
            at = rej[0][1] if rej else 0
            evs = open(tr).read().split("\n")
            # the evaluation the rejected event belongs to
            k = at - 1
            while k > 0 and '"e":"begin"' not in evs[k]:
                k -= 1
            i = json.loads(evs[k]).get("i", 0) if k >= 0 and evs[k] else 0
            prog = None
            for l in open(tr + ".progs"):
                j = json.loads(l)
                if j["i"] == i:
                    prog = j
            res.violation("memo-discipline:event-not-allowed-by-GuardMachine",
                          {"rejected_event": evs[at - 1] if at else "", "events_of_run": evs[k:at + 1], "program": prog})
        else:
            res.add("traces_validated_against_impl", n)
            res.add("hook_events_validated", nev)
        kinds = {}
        for l in open(tr):
            j = json.loads(l)
            key = j["e"] + (":" + j.get("src", "") if j["e"] == "var" else "") + (":cached" if j.get("cached") else "")
            kinds[key] = kinds.get(key, 0) + 1
        res.cov.setdefault("hook_event_kinds", {})[cfg] = kinds
        if kinds.get("rule_status:cached", 0) == 0 or kinds.get("var:memo", 0) == 0:
            raise ToolError("no cache hit / memo read observed (vacuous)")
        os.remove(tr)
        os.remove(tr + ".progs")
    res.add("evaluations", n * len(cfgs))


def relation_key(name, grp):
    """a broken order relation is keyed by what the program needs for it: rules sharing a name"""
    base = [g for g in grp if g["var"] == "B"]
    if base:
        names = [r["n"] for r in base[0]["prog"]["rules"]]
        if len(set(names)) < len(names):
            return "relation:%s:same-named-rules" % name
    return "relation:" + name


def unbounded_machine(res):
    """MachineInd: the rule-status cache and the evaluation stack for any number of events; Apalache checks
    that IndInv (no name twice on the stack, a name in progress has no cached status) is inductive and that
    a cached status is never changed outside NewRoot (TraceMemo ties the same actions to the hook events)"""
    d = os.path.join(SPEC, "apalache")
    out_dir = os.path.join(WORK, "apalache")
    steps = [("initiation", ["--init=Init", "--inv=IndInv", "--length=0"]),
             ("consecution", ["--init=IndInit", "--inv=IndInv", "--length=1"]),
             ("single-assignment", ["--init=IndInit", "--inv=SingleAssignment", "--length=1"])]
    ok = 0
    for name, args in steps:
        rc, out = sh(["timeout", "600", "apalache-mc", "check", "--cinit=ConstInit"] + args + ["--out-dir=" + out_dir, "MachineInd.tla"], cwd=d, timeout=700)
        if "EXITCODE: OK" in out:
            ok += 1
        elif "EXITCODE: ERROR (12)" in out:
            raise ToolError("MachineInd: invariant not inductive (%s)" % name)
        else:
            log(out[-1500:])
            raise ToolError("apalache-mc failed on MachineInd (%s)" % name)
    res.cov["unbounded_machine_obligations"] = {"checked": len(steps), "ok": ok, "tool": "apalache-mc 0.58"}
    import shutil
    shutil.rmtree(out_dir, ignore_errors=True)


def run(tier):
    res = Result("C04", tier, "model_checking")
    res.assumptions = ["orderings that raise an evaluation error are excluded (the property's proviso)",
                       "key-capture variables are excluded from the memo discipline",
                       "hook events are emitted after the state change they report; the program is single threaded"]
    # 1. the design: GuardMachine (cache / memo / stack) under every schedule of an abstract evaluator
    r = tlc("MC_Machine", workers=4, timeout=900, tag="mcm")
    if not r["ok"]:
        log(r["out"][-3000:])
        raise ToolError("MC_Machine: an invariant of GuardMachine fails")
    res.add("states", r["distinct"])
    res.add("transitions", r["states"])
    res.cov["machine_states"] = r["distinct"]
    unbounded_machine(res)
    # 2. the combination rules are symmetric: all permutations / repetitions (lines <= 3 quick / 4 thorough, alternatives <= 3)
    r = tlc("MC_Cnf", cfg="MC_Cnf_perm3" if tier == "quick" else "MC_Cnf_perm", workers=8, timeout=1800, tag="cnfperm", heap="8g", env={"CTXS": "1,1"})
    if not r["ok"]:
        log(r["out"][-3000:])
        raise ToolError("MC_Cnf: PermLaw fails on the specification")
    res.add("states", r["distinct"])
    res.add("transitions", r["states"])
    res.cov["permutation_law_states"] = r["distinct"]
    # 3. impl -> spec: permutation groups
    n = 400 if tier == "quick" else 6000
    core.record_and_judge(res, tier, n, ["core", "full", "dups"], c01.classify, spec="TraceGroup", recorder="record-perm",
                          expect_relations=True, relation_key=relation_key)
    # 4. impl -> spec: memoisation histories
    memo_trace(res, tier, 1500 if tier == "quick" else 20000, ["core", "full", "dups"])
    res.cov["rule"] = ("GuardMachine model-checked for 3 rules (all reference graphs, statuses, schedules); PermLaw over all "
                       "CNF shapes <= 4x3; R: random programs with lines/alternatives/rules permuted, clauses repeated, rules "
                       "duplicated under a new name (TraceGroup); hook-event streams of random programs validated against "
                       "GuardMachine (TraceMemo); Apalache: inductive invariant of the cache / stack machine for histories of any length "
                       "(spec/apalache/MachineInd.tla)")
    return res.finish()


def replay(path):
    return c01.replay(path)
