"""C14 - alternative spellings, layout and comments do not change a rules file's meaning."""
import json, os
from common import *
import core, c01

CANON = {"upper": False, "or": 0, "not": 0, "assign": False, "single": False, "dot": False, "this": False,
         "indent": 2, "tab": False, "comments": False, "blanks": False, "breaks": False, "sep": 0, "crlf": False, "tq": False}

TQ_ERR = "Unable to resolve type block query"


def styles(res):
    """the style space enumerated by MC_Syntax -> one JSON style per line (with its distance `nd`)"""
    r = tlc("MC_Syntax", workers=4, timeout=900, tag="mcsyn")
    if r["violated"] or not r["ok"]:
        log(r["out"][-3000:])
        raise ToolError("MC_Syntax failed")
    res.add("states", r["distinct"])
    res.add("transitions", r["states"])
    ts = tlc_tuples(r["out"], "STYLE")
    path = os.path.join(WORK, "styles_C14.ndjson")
    by_nd = {}
    with open(path, "w") as f:
        for t in ts:
            j = t[2] if isinstance(t[2], dict) else json.loads(t[2])
            j["nd"] = t[1]
            by_nd[t[1]] = by_nd.get(t[1], 0) + 1
            f.write(json.dumps(j) + "\n")
    if by_nd.get(1, 0) != 19 or len(ts) != 165888:
        raise ToolError("MC_Syntax: unexpected style space %s" % by_nd)
    res.cov["style_space"] = {"vectors": len(ts), "single_class_deviations": by_nd.get(1, 0)}
    return path


def differing(style):
    return sorted(k for k in CANON if k in style and style[k] != CANON[k]) + (["mix"] if style.get("mix") else []) + (["bare"] if style.get("bare") else [])


def relation_key(name, line, base):
    if name == "type-block-is-query":
        bo, o = base["obs"], line["obs"]
        if bo["kind"] == "err" and TQ_ERR in bo.get("msg", "") and not (o["kind"] == "err" and TQ_ERR in o.get("msg", "")):
            return "relation:type-block-is-query:type-block-is-an-error-when-Resources-is-missing"
        return "relation:type-block-is-query:%s-vs-%s" % (bo.get("file", bo["kind"]), o.get("file", o["kind"]))
    d = differing(line["style"])
    return "relation:%s:%s" % (name, "+".join(d[:2]) if len(d) <= 2 else d[0] + "+..")


def validate(res, tr):
    r = tlc("TraceSyntax", env={"TRACE": tr}, workers=1, timeout=3000, tag="tr_C14", heap="6g")
    if "TRACE-REJECTED" in r["out"] or not r["ok"]:
        log(r["out"][-3000:])
        raise ToolError("TraceSyntax did not consume the whole trace")
    res.add("states", r["distinct"])
    res.add("transitions", r["states"])
    lines = [json.loads(l) for l in open(tr) if l.strip()]
    by_i = {l["i"]: l for l in lines}
    base_of = {}
    b = None
    for l in lines:
        if l["var"] == "B":
            b = l
        base_of[l["i"]] = b
    nb = sum(1 for l in lines if l["var"] in ("B", "TQ"))
    verdicts = judge_lines(r["out"])
    if len(verdicts) != nb:
        raise ToolError("TraceSyntax judged %d of %d lines" % (len(verdicts), nb))
    for (i, verdict, payloads) in verdicts:
        line = by_i[i]
        key = c01.classify(verdict, payloads, line) if verdict != "unknown" else None
        if key is None:
            res.add("traces_validated_against_impl")
        else:
            res.violation("judge:" + key, {"line": line, "verdict": verdict, "spec": payloads})
    rel = core.relate_lines(r["out"])
    if not rel:
        raise ToolError("TraceSyntax evaluated no relation (vacuous)")
    seen = res.cov.setdefault("relations", {})
    classes = res.cov.setdefault("classes_exercised", {})
    for (i, verdict, name) in rel:
        res.add("relations_checked")
        seen[name] = seen.get(name, 0) + 1
        line = by_i[i]
        if name == "same-program":
            for d in differing(line["style"]):
                classes[d] = classes.get(d, 0) + 1
        if verdict != "ok":
            base = base_of[i]
            res.violation(relation_key(name, line, base),
                          {"relation": name, "style": line["style"], "differs_in": differing(line["style"]),
                           "canonical_text": base["text"], "text": line["text"], "doc": base["doc"],
                           "canonical": {"pt": base["pt"], "obs": summary(base["obs"])},
                           "variant": {"pt": line["pt"], "ptkind": line["ptkind"], "pterr": line.get("pterr"), "obs": summary(line["obs"])}})
    for l in lines:
        if l["var"] == "TQ" and not l.get("tq_text_ok", True):
            raise ToolError("harness: the text written for a TQ line is not the rewritten program (line %d)" % l["i"])
    return len(lines)


def summary(o):
    return {k: v for k, v in o.items() if k != "tree"}


def run(tier):
    res = Result("C14", tier, "model_checking")
    res.assumptions = ["'same program' = the JSON printed by `parse-tree --print-json` with source locations removed; for an explicit leading "
                       "`this.` additionally with that leading part removed (the parser keeps it as a query part that selects the current scope)",
                       "comments are placed at line ends and on lines of their own between clauses, line breaks inside list literals, filters and or-lines",
                       "type blocks with `when` conditions have no query spelling and are not rewritten"]
    sp = styles(res)
    n = 60 if tier == "quick" else 1200
    per = 8 if tier == "quick" else 14
    total = 0
    for ci, cfg in enumerate(["core", "full", "dups", "fn"]):
        tr = os.path.join(WORK, "trace_C14_%s.ndjson" % cfg)
        gv(["record-syntax", "--seed", seed() * 6143 + ci, "--n", n, "--per", per, "--cfg", cfg, "--styles", sp, "--out", tr])
        total += validate(res, tr)
        if ci == 0:
            ls = [json.loads(l) for l in open(tr)][:40]
            res.sample({"canonical": ls[0]["text"][:1500], "variant_style": ls[-1]["style"], "variant": ls[-1]["text"][:1500]})
        os.remove(tr)
    os.remove(sp)
    res.add("evaluations", total)
    missing = [c for c in list(CANON) + ["mix", "bare"] if c not in res.cov["classes_exercised"] and c not in ("tq", "bare")]
    if missing:
        raise ToolError("style classes never exercised: %s" % missing)
    res.cov["rule"] = ("MC_Syntax enumerates the 165888 style vectors (15 token / layout classes); every generated AST (4 generator "
                       "configurations) is written canonically and under all 19 single-class deviations, sampled multi-class vectors and "
                       "per-occurrence mixtures; each text goes through parse-tree --print-json and run_checks; TraceSyntax judges the "
                       "canonical line against Denote and relates every variant to it (same-program, same-verdicts, type-block-is-query, default-rule)")
    return res.finish()


def replay(path):
    case = json.load(open(path))
    print(json.dumps(case)[:4000])
    return 1
