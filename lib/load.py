"""Feeding texts written by the specification (GuardLoad.Ser / scalar and tag tables) to the
three loaders of the implementation and recording what each of them makes of it."""
import json, os, re
from common import *
import cli


def cps_str(cp):
    return "".join(chr(c) for c in cp)


def to_abstract(j):
    """concrete JSON value (as dumped by the implementation) -> abstract value, None outside the universe"""
    if j is None:
        return {"t": "null"}
    if isinstance(j, bool):
        return {"t": "bool", "v": j}
    if isinstance(j, int):
        return {"t": "int", "v": j} if abs(j) <= 1000000 else None
    if isinstance(j, float):
        m = round(j * 1000)
        if abs(m) <= 10 ** 9 and abs(m / 1000.0 - j) < 1e-12:
            return {"t": "flt", "v": int(m)}
        return None
    if isinstance(j, str):
        return {"t": "str", "v": [ord(c) for c in j]}
    if isinstance(j, list):
        xs = [to_abstract(x) for x in j]
        return None if any(x is None for x in xs) else {"t": "list", "v": xs}
    if isinstance(j, dict):
        vs = [to_abstract(x) for x in j.values()]
        return None if any(x is None for x in vs) else {"t": "map", "k": [[ord(c) for c in k] for k in j.keys()], "v": vs}
    return None


def type_of(j):
    if j is None:
        return "null"
    if isinstance(j, bool):
        return "bool"
    if isinstance(j, int):
        return "int"
    if isinstance(j, float):
        return "flt"
    if isinstance(j, str):
        return "str"
    if isinstance(j, list):
        return "list"
    return "map"


def guard_key(k):
    return k if re.match(r"^[A-Za-z][A-Za-z0-9_]*$", k) and k not in ("this", "some", "when") else json.dumps(k, ensure_ascii=False)


def path_query(segs):
    """slash-pointer segments -> Guard query text"""
    out = "this"
    for s in segs:
        if re.match(r"^[0-9]+$", s):
            out += "[%s]" % s
        else:
            out += "." + guard_key(s)
    return out


DUMP_RULE = 'rule dump { this == "@@no-such-value@@" }\n'
PATH_RE = re.compile(r"Path=(\S*?)\[L:(\d+),C:(\d+)\]")


def find_rule(report, name):
    for it in report.get("not_compliant", []):
        if "Rule" in it and it["Rule"]["name"] == name:
            return it["Rule"]
    return None


def first_from(rule):
    """(from.value, error message) of the first binary check of a rule report"""
    for c in rule["checks"]:
        b = c.get("Clause", {}).get("Binary")
        if b and "Resolved" in b["check"]:
            return b["check"]["Resolved"]["from"]["value"], b["messages"]["error_message"]
    return None, None


def validate_loader(wd, fname, text, pos_paths):
    """load through `cfn-guard validate` (libyaml loader): dumped document + reported positions"""
    dpath = wd.write(fname, text)
    rules = DUMP_RULE
    if pos_paths:
        rules += "rule pos {\n" + "".join("  %s == \"@@no-such-value@@\"\n" % path_query(p) for p in pos_paths) + "}\n"
    rpath = wd.write("probe.guard", rules)
    rc, so, se = cli.run(["validate", "-r", rpath, "-d", dpath, "--structured", "-o", "json", "-S", "none"])
    obs = {"exit": rc, "ok": False, "positions": []}
    try:
        rep = json.loads(so)[0]
    except (ValueError, IndexError):
        obs["error"] = (se or so)[:300]
        return obs
    d = find_rule(rep, "dump")
    if d:
        v, _ = first_from(d)
        obs["value"] = v
        obs["ok"] = True
    p = find_rule(rep, "pos")
    if p:
        for c in p["checks"]:
            b = c.get("Clause", {}).get("Binary")
            if b and "Resolved" in b["check"]:
                m = PATH_RE.search(b["messages"]["error_message"])
                if m:
                    obs["positions"].append({"path": m.group(1), "l": int(m.group(2)), "c": int(m.group(3)),
                                             "from_path": b["check"]["Resolved"]["from"]["path"]})
    if pos_paths:
        # the same rules and document handed over as a payload on stdin: positions are counted in the document text
        rc3, so3, _ = cli.run(["validate", "--payload", "--structured", "-o", "json", "-S", "none"],
                              stdin=json.dumps({"rules": [rules], "data": [text]}))
        obs["payload"] = []
        try:
            p3 = find_rule(json.loads(so3)[0], "pos")
            for c in (p3 or {}).get("checks", []):
                b = c.get("Clause", {}).get("Binary")
                if b and "Resolved" in b["check"]:
                    m = PATH_RE.search(b["messages"]["error_message"])
                    if m:
                        obs["payload"].append({"path": b["check"]["Resolved"]["from"]["path"], "l": int(m.group(2)), "c": int(m.group(3))})
        except (ValueError, KeyError, IndexError, TypeError):
            obs["payload"] = [{"path": "/?", "l": -1, "c": -1}]
        # the same run reported as SARIF: the region of every result of rule `pos`, with the path its message names
        rc2, so2, _ = cli.run(["validate", "-r", rpath, "-d", dpath, "--structured", "-o", "sarif", "-S", "none"])
        obs["sarif"] = []
        try:
            for run in json.loads(so2)["runs"]:
                for r in run["results"]:
                    if r["ruleId"] != "POS":
                        continue
                    named = PATH_RE.findall(r["message"]["text"])
                    reg = r["locations"][0]["physicalLocation"]["region"]
                    # the region is the (1-based, at least 1) position of one of the values the message names
                    rn = any((max(1, int(l_)), max(1, int(c_))) == (reg["startLine"], reg["startColumn"]) for _, l_, c_ in named)
                    m = named[0] if named else ("?", 0, 0)
                    obs["sarif"].append({"path": m[0], "l": int(m[1]), "c": int(m[2]), "rn": rn})
        except (ValueError, KeyError, IndexError, TypeError):
            obs["sarif"] = [{"path": "?", "l": 0, "c": 0, "rn": False}]
    return obs


def lib_loader(wd, text):
    """load through run_checks (serde_json, then serde_yaml)"""
    dpath = wd.write("lib_data.txt", text)
    rpath = wd.write("probe_lib.guard", DUMP_RULE)
    rc, out = sh([GV, "run", "--rules", rpath, "--data", dpath], timeout=120)
    obs = {"ok": False}
    txt = out.strip()
    if txt.startswith("ERR ") or txt.startswith("PANIC "):
        obs["error"] = txt[:300]
        return obs
    try:
        rep = json.loads(txt)
    except ValueError:
        obs["error"] = "not json: " + txt[:200]
        return obs
    d = find_rule(rep, "dump")
    if d:
        v, _ = first_from(d)
        obs["value"] = v
        obs["ok"] = True
    return obs


TYPE_RULES = ("rule is_s { v is_string }\nrule is_i { v is_int }\nrule is_f { v is_float }\nrule is_b { v is_bool }\n"
              "rule is_n { v is_null }\nrule is_l { v is_list }\nrule is_m { v is_struct }\nrule there { v exists }\n")


def test_loader_types(wd, input_yaml_lines):
    """load through `cfn-guard test` (serde_yaml on the test file): observed type of `v`"""
    rpath = wd.write("types.guard", TYPE_RULES)
    names = ["is_s", "is_i", "is_f", "is_b", "is_n", "is_l", "is_m", "there"]
    t = "- name: t\n  input:\n" + "".join("    " + l + "\n" for l in input_yaml_lines)
    t += "  expectations:\n    rules:\n" + "".join("      %s: PASS\n" % n for n in names)
    tpath = wd.write("types_tests.yaml", t)
    rc, so, se = cli.run(["test", "-r", rpath, "-t", tpath, "-o", "json"])
    obs = {"exit": rc, "ok": False}
    try:
        j = json.loads(so)
        tc = j["test_cases"][0]
        ev = {}
        for r in tc["passed_rules"]:
            ev[r["name"]] = r["evaluated"]
        for r in tc["failed_rules"]:
            ev[r["name"]] = r["evaluated"][0] if r["evaluated"] else "?"
        obs["evaluated"] = ev
        tmap = {"is_s": "str", "is_i": "int", "is_f": "flt", "is_b": "bool", "is_n": "null", "is_l": "list", "is_m": "map"}
        ts = [tmap[k] for k, v in ev.items() if k in tmap and v == "PASS"]
        obs["type"] = ts[0] if len(ts) == 1 else ("missing" if ev.get("there") == "FAIL" else "?" + ",".join(ts))
        obs["ok"] = True
    except (ValueError, KeyError, IndexError):
        obs["error"] = (se or so)[:300]
    return obs


def test_loader_same(wd, doc_literal, text, fmt):
    """load through `cfn-guard test`: does the loaded input equal the document written as a Guard literal?"""
    rpath = wd.write("same.guard", "rule same { this == %s }\n" % doc_literal)
    lines = text.strip("\n").split("\n")      # (leading empty lines of a layout do not matter here)
    if fmt in ("json", "flow"):
        body = "  input: " + lines[0] + "\n"
    else:
        body = "  input:\n" + "".join(("      " + l + "\n") if l.strip() else "\n" for l in lines)
    t = "- name: t\n" + body + "  expectations:\n    rules:\n      same: PASS\n"
    tpath = wd.write("same_tests.yaml", t)
    rc, so, se = cli.run(["test", "-r", rpath, "-t", tpath, "-o", "json"])
    obs = {"exit": rc, "ok": False}
    try:
        j = json.loads(so)
        tc = j["test_cases"][0]
        ev = {r["name"]: r["evaluated"] for r in tc["passed_rules"]}
        for r in tc["failed_rules"]:
            ev[r["name"]] = r["evaluated"][0] if r["evaluated"] else "?"
        obs["same"] = ev.get("same", "?")
        obs["ok"] = True
    except (ValueError, KeyError, IndexError):
        obs["error"] = (se or so)[:300]
    return obs
