"""C12 (file walks): trees built on disk, the real binary run on them, what it read and in which
order validated by TraceFiles against GuardFiles."""
import json, os, random, re
from common import *
import cli

RULE_TEXT = "rule ok {\n  id exists\n}\n"
NOT_DATA = "this is not data: {{{ [\n"


def cps(s):
    return [ord(c) for c in s]


def cps_str(cp):
    return "".join(chr(c) for c in cp)


def content_for(name):
    if name.endswith((".json", ".jsn", ".template")):
        return '{"id": 1}\n'
    if name.endswith((".yaml", ".yml")):
        return "id: 1\n"
    if name.endswith((".guard", ".ruleset")):
        return RULE_TEXT
    return NOT_DATA


def materialise(entry, parent):
    """write the entry below `parent`; modification times are set bottom-up from entry.t"""
    name = cps_str(entry["n"])
    p = os.path.join(parent, name)
    if entry["k"] == "f":
        with open(p, "w") as f:
            f.write(content_for(name))
    else:
        os.makedirs(p, exist_ok=True)
        for c in entry["c"]:
            materialise(c, p)
    t = 1_600_000_000 + 60 * entry["t"]
    os.utime(p, (t, t))
    return p


BLOCK = re.compile(r"^(.+) Status = (PASS|FAIL|SKIP)$")
RULE = re.compile(r"^(\S.*)/([A-Za-z_][A-Za-z0-9_]*)\s+(PASS|FAIL|SKIP)$")


def observe(root_path, rules_arg, data_arg, by_time, base_parent):
    args = ["validate", "-r", rules_arg, "-d", data_arg, "-S", "all"] + (["--last-modified"] if by_time else ["--alphabetical"])
    rc, so, se = cli.run(args)
    pairs, cur = [], None
    for line in cli.strip_ansi(so).split("\n"):
        m = BLOCK.match(line)
        if m:
            cur = m.group(1)
            continue
        r = RULE.match(line)
        if r and cur:
            rel = os.path.relpath(os.path.realpath(cur), base_parent)
            # the summary names a rules file by its file name only
            pairs.append([cps(r.group(1).split("/")[-1]), [cps(x) for x in rel.split("/")]])
            cur = None
    return {"exit": rc, "pairs": pairs, "_stdout": so[:1500], "_stderr": se[:400], "_args": args}


NAMES = ["a.json", "b.yaml", "c.guard", "d.txt", "e.JSON", "f.template", "g.json.bak", "B.yml", "z.ruleset", "10.json", "9.json",
         "with space.json", "é.yaml", ".json", "json", "x.yml.json", "_r.guard", "R.GUARD", "k.jsn"]


def random_tree(rnd, depth=0):
    n = rnd.randint(1, 4)
    names = rnd.sample(NAMES, n)
    children = []
    for nm in names:
        children.append({"n": cps(nm), "k": "f", "t": 0, "c": []})
    if depth < 2 and rnd.random() < 0.6:
        for d in rnd.sample(["sub", "A", "zz.json", "m.guard", "release-1.2", "policy.v2", ".hidden"], rnd.randint(1, 2)):
            sub = random_tree(rnd, depth + 1)
            sub["n"] = cps(d)
            children.append(sub)
    return {"n": cps("root"), "k": "d", "t": 0, "c": children}


def assign_times(e, rnd, counter):
    # distinct modification times, unrelated to the names
    for c in e["c"]:
        assign_times(c, rnd, counter)
    e["t"] = counter.pop()


def has_rules(e):
    if e["k"] == "f":
        return cps_str(e["n"]).endswith((".guard", ".ruleset"))
    return any(has_rules(c) for c in e["c"])


def run_trees(res, trees, label):
    wd = cli.Workdir("files")
    tr = os.path.join(WORK, "trace_files.ndjson")
    fixed = wd.write("fixed.guard", RULE_TEXT)
    keep = {}
    with open(tr, "w") as f:
        for i, tree in enumerate(trees, 1):
            parent = os.path.join(wd.path, "t%d" % i)
            os.makedirs(parent)
            root = materialise(tree, parent)
            if has_rules(tree):
                rules_arg, rules_entry = root, tree
            else:
                rules_arg, rules_entry = fixed, {"n": cps("fixed.guard"), "k": "f", "t": 0, "c": []}
            oa = observe(root, rules_arg, root, False, parent)
            om = observe(root, rules_arg, root, True, parent)
            keep[i] = {"alphabetical": {k: oa[k] for k in ("_args", "_stdout", "_stderr")}, "last-modified": {k: om[k] for k in ("_args", "_stdout", "_stderr")}}
            line = {"i": i, "tree": tree, "rules": rules_entry,
                    "obs_a": {k: v for k, v in oa.items() if not k.startswith("_")},
                    "obs_m": {k: v for k, v in om.items() if not k.startswith("_")}}
            f.write(json.dumps(line) + "\n")
    wd.close()
    r = tlc("TraceFiles", env={"TRACE": tr}, workers=1, timeout=3000, tag="tr_files", heap="4g")
    if "TRACE-REJECTED" in r["out"] or not r["ok"]:
        log(r["out"][-3000:])
        raise ToolError("TraceFiles did not consume the whole trace")
    res.add("states", r["distinct"])
    res.add("transitions", r["states"])
    lines = {}
    for l in open(tr):
        j = json.loads(l)
        lines[j["i"]] = j
    seen = res.cov.setdefault("relations", {})
    for t in tlc_tuples(r["out"], "RELATE"):
        i, verdict, name = t[1], t[2], t[3]
        res.add("relations_checked")
        seen["files:" + name] = seen.get("files:" + name, 0) + 1
        if verdict == "ok":
            res.add("traces_validated_against_impl")
        else:
            flag = name.split(":")[1]
            res.violation("files:%s:%s" % (name, label), {"tree": show(lines[i]["tree"]), "observed_pairs": [[cps_str(p[0]), "/".join(cps_str(x) for x in p[1])] for p in lines[i]["obs_a" if flag == "alphabetical" else "obs_m"]["pairs"]],
                                                          "run": keep[i][flag]})
    os.remove(tr)
    return len(lines)


def show(e):
    if e["k"] == "f":
        return "%s (t=%d)" % (cps_str(e["n"]), e["t"])
    return {"%s/ (t=%d)" % (cps_str(e["n"]), e["t"]): [show(c) for c in e["c"]]}


def check(res, tier):
    # spec -> impl: the trees enumerated by MC_Files
    r = tlc("MC_Files", workers=8, timeout=1200, tag="mcfiles", heap="6g")
    if r["violated"] or not r["ok"]:
        log(r["out"][-3000:])
        raise ToolError("MC_Files fails on the specification")
    res.add("states", r["distinct"])
    res.add("transitions", r["states"])
    rnd = random.Random(seed() + 1212)
    cases = [json.loads(t[1]) if isinstance(t[1], str) else t[1] for t in tlc_tuples(r["out"], "REPLAY")]
    cases = rnd.sample(cases, min(len(cases), 150 if tier == "quick" else 2500))
    n = run_trees(res, [c["tree"] for c in cases], "enumerated")
    # impl -> spec: random deeper trees with awkward names and modification times unrelated to names
    trees = []
    for _ in range(100 if tier == "quick" else 1500):
        t = random_tree(rnd)
        cnt = list(range(1, 200))
        rnd.shuffle(cnt)
        assign_times(t, rnd, cnt)
        trees.append(t)
    n += run_trees(res, trees, "random")
    res.add("evaluations", 2 * n)
    res.cov["file_trees"] = n
    return n


# ---- `cfn-guard test --dir`: which test files are run against which rules file ----------------

PREFIXES = ["r", "r_more", "rx", "ab", "abc", "s3", "s3_bucket", "s3_bucket_encryption", "a", "s3-bucket", "r-x", "r.more", "ab-c", "s3.v2"]


def test_dirs(res, tier):
    """directories with rules files whose names are prefixes of one another and tests named after them"""
    rnd = random.Random(seed() + 1616)
    wd = cli.Workdir("testdirs")
    tr = os.path.join(WORK, "trace_testdirs.ndjson")
    n = 40 if tier == "quick" else 600
    keep = {}
    with open(tr, "w") as f:
        for i in range(1, n + 1):
            root = os.path.join(wd.path, "d%d" % i)
            dirs = []
            for dname in ([""] + (["sub"] if rnd.random() < 0.4 else [])):
                d = os.path.join(root, dname) if dname else root
                os.makedirs(os.path.join(d, "tests"), exist_ok=True)
                prefixes = rnd.sample(PREFIXES, rnd.randint(1, 4))
                rules, tests = [], []
                for k, p in enumerate(prefixes):
                    rn = p + (".ruleset" if rnd.random() < 0.2 else ".guard")
                    rule = "rule_%s" % p.replace("-", "_").replace(".", "_")
                    open(os.path.join(d, rn), "w").write("rule %s {\n  id exists\n}\n" % rule)
                    rules.append(rn)
                    if rnd.random() < 0.85:
                        tn = p + "_tests" + rnd.choice([".yaml", ".yaml", ".yml", ".json"])
                        case = {"name": tn, "input": {"id": 1}, "expectations": {"rules": {rule: "PASS"}}}
                        open(os.path.join(d, "tests", tn), "w").write(json.dumps([case]))
                        tests.append(tn)
                dirs.append({"path": os.path.realpath(d), "rules": [cps(x) for x in rules], "tests": [cps(x) for x in tests]})
            rc, so, se = cli.run(["test", "--dir", root, "-o", "json"])
            ran = []
            try:
                for rep in json.loads(so):
                    rf = os.path.realpath(rep["rule_file"])
                    dnum = next((k + 1 for k, d in enumerate(dirs) if os.path.dirname(rf) == d["path"]), 0)
                    for tc in rep.get("test_cases", []):
                        ran.append({"dir": dnum, "rule": cps(os.path.basename(rf)), "test": cps(tc["name"])})
            except (ValueError, KeyError, TypeError):
                pass
            keep[i] = {"args": ["test", "--dir", "d%d" % i, "-o", "json"], "stdout": so[:2500], "stderr": se[:300],
                       "layout": [{"rules": [cps_str(x) for x in d["rules"]], "tests": [cps_str(x) for x in d["tests"]]} for d in dirs]}
            f.write(json.dumps({"i": i, "dirs": [{"rules": d["rules"], "tests": d["tests"]} for d in dirs], "ran": [r for r in ran if r["dir"] > 0], "exit": rc}) + "\n")
    wd.close()
    r = tlc("TraceFiles", env={"TRACE": tr}, workers=1, timeout=3000, tag="tr_testdirs", heap="4g")
    if "TRACE-REJECTED" in r["out"] or not r["ok"]:
        log(r["out"][-3000:])
        raise ToolError("TraceFiles did not consume the test-dir trace")
    res.add("states", r["distinct"])
    res.add("transitions", r["states"])
    seen = res.cov.setdefault("relations", {})
    for t in tlc_tuples(r["out"], "RELATE"):
        i, verdict, name = t[1], t[2], t[3]
        res.add("relations_checked")
        seen[name] = seen.get(name, 0) + 1
        if verdict == "ok":
            res.add("traces_validated_against_impl")
        else:
            res.violation(name, keep[i])
    os.remove(tr)
    res.add("evaluations", n)
    return n
