"""C15 - variables and parameterised rules are transparent abstractions."""
import os
from common import *
import core, c01, c04


CLASSIFY_VK = lambda v, p, l: None if v in ("ok", "unknown") else ("vkey:" + ("deviation" if v == "dev" else "verdict-mismatch"))


def run(tier):
    res = Result("C15", tier, "model_checking")
    res.assumptions = ["abstraction sites: occurrences whose evaluation context is the scope the variable is bound in (rule body, when blocks, when conditions); the documented exception (emptiness test on a bare variable) is excluded",
                       "key-capture variables excluded"]
    # 1. spec: every single-clause state of MC_E1 with its rhs / query prefixes bound to variables
    env = {}
    if tier == "quick":
        env = {"SLICES": "6", "SLICE": str(1 + seed() % 6)}
    r = tlc("MC_E1", cfg="MC_E1_abs", env=env, workers=8, timeout=2400, tag="e1abs", heap="8g")
    if not r["ok"]:
        log(r["out"][-3000:])
        raise ToolError("MC_E1: AbsOK fails on the specification")
    res.add("states", r["distinct"])
    res.add("transitions", r["states"])
    res.cov["abstraction_law_states"] = r["distinct"]
    # 2. impl -> spec: abstraction groups
    n = 400 if tier == "quick" else 6000
    core.record_and_judge(res, tier, n, ["core", "full"], c01.classify, spec="TraceGroup", recorder="record-abs",
                          expect_relations=True)
    # 3. which scope served which variable: hook events against GuardMachine
    c04.memo_trace(res, tier, 1000 if tier == "quick" else 15000, ["core", "full"], seed_mul=32452843)
    # variable keys in the middle of a query (`map.%v.x`): an enumerated family through TraceEval
    tr_vk = os.path.join(WORK, "trace_%s_vkey.ndjson" % res.prop)
    gv(["record-vkey", "--out", tr_vk])
    core.validate_trace(res, "TraceEval", tr_vk, CLASSIFY_VK)
    os.remove(tr_vk)
    res.cov["rule"] = ("AbsOK over the single-clause space (literal / query right-hand side and every query prefix through a "
                       "file- and rule-level variable, shadowing, unused variables); R: random programs with one occurrence "
                       "abstracted (AL, AQ, AR), unused / shadowed variables (UN, SH) and clauses turned into parameterised "
                       "rule calls (IN), relation evaluated by TraceGroup; variable resolution events validated by TraceMemo")
    return res.finish()


def replay(path):
    return c01.replay(path)
