"""Pipelines shared by the evaluator properties (C01, C02, C03, C04, C13, C15 ...)."""
import json, os, re
from common import *


def extract_tlc_tables(out, cases_path):
    """TABLE / REPLAY lines of a TLC run -> (tables dict, number of cases written)"""
    tables, n = {}, 0
    with open(cases_path, "w") as f:
        for t in tlc_tuples(out, "TABLE"):
            tables[t[1]] = json.loads(t[2])
        for t in tlc_tuples(out, "REPLAY"):
            f.write(t[1] + "\n")
            n += 1
    return tables, n


def e1(res, tier, accept):
    """spec -> impl over the exhaustive single-clause space (MC_E1).
    accept(mismatch) -> key or None decides which mismatches belong to the calling property."""
    env = {}
    if tier == "quick":
        env = {"SLICES": "4", "SLICE": str(1 + seed() % 4)}
    r = tlc("MC_E1", env=env, workers=8, timeout=1500, tag="e1_" + res.prop, heap="8g")
    if r["violated"] or not r["ok"]:
        # a law fails in the specification itself: that is a defect of the spec, not of the code
        log(r["out"][-3000:])
        raise ToolError("MC_E1: an invariant of the specification is violated")
    cases = os.path.join(WORK, "e1_cases_%s.ndjson" % res.prop)
    tables, n = extract_tlc_tables(r["out"], cases)
    if n == 0 or len(tables) < 4:
        raise ToolError("MC_E1 produced no cases (vacuous)")
    tp = os.path.join(WORK, "e1_tables_%s.json" % res.prop)
    json.dump(tables, open(tp, "w"))
    mp = os.path.join(WORK, "e1_mism_%s.ndjson" % res.prop)
    summ = json.loads(gv(["replay-e1", "--tables", tp, "--cases", cases, "--out", mp, "--threads", 12]).strip().split("\n")[-1])
    res.add("states", r["distinct"])
    res.add("transitions", r["states"])
    res.add("traces_validated_against_impl", summ["cases"])
    res.add("evaluations", summ["evaluations"])
    res.add("e1_cases", n)
    res.add("e1_direct_relation_checks", summ["direct_relations"])
    res.cov["e1_exhaustive"] = (tier != "quick")
    with open(cases) as f:
        for i, l in enumerate(f):
            if i in (0, n // 2):
                c = json.loads(l)
                res.sample({"e1_case": c, "query": tables["queries"][c["q"] - 1], "doc": tables["docs"][c["d"] - 1],
                            "op_rhs": tables["oprhs"][c["o"] - 1]})
    for l in open(mp):
        mm = json.loads(l)
        key = accept(mm)
        if key:
            res.violation(key, mm)
    for p in (cases, tp, mp):
        os.remove(p)
    return summ


def relate_lines(out):
    return [(t[1], t[2], t[3]) for t in tlc_tuples(out, "RELATE")]


def validate_trace(res, spec, tr, classify, relation_prefix="relation:", expect_relations=False, relation_key=None):
    """Run trace specification `spec` over trace file `tr`; every line is judged against Denote
    (JUDGE) and the relational laws are evaluated between lines (RELATE)."""
    r = tlc(spec, env={"TRACE": tr}, workers=1, timeout=3000, tag="tr_" + res.prop + spec, heap="6g")
    if "TRACE-REJECTED" in r["out"] or not r["ok"]:
        log(r["out"][-3000:])
        raise ToolError("%s did not consume the whole trace" % spec)
    lines = open(tr).read().split("\n")
    n = len([l for l in lines if l.strip()])
    verdicts = judge_lines(r["out"])
    if len(verdicts) != n:
        raise ToolError("%s judged %d of %d lines" % (spec, len(verdicts), n))
    res.add("states", r["distinct"])
    res.add("transitions", r["states"])
    kinds = {}
    for (i, verdict, payloads) in verdicts:
        line = json.loads(lines[i - 1])
        kinds[line["obs"]["kind"]] = kinds.get(line["obs"]["kind"], 0) + 1
        key = classify(verdict, payloads, line)
        if key is None:
            res.add("traces_validated_against_impl")
        else:
            texts = gv(["render"], input=json.dumps(line))
            res.violation(key, {"line": line, "verdict": verdict, "spec": payloads, "rendered": texts[:6000]})
        if i in (1, n // 2):
            res.sample({"trace_line": {k: (v if k != "obs" else {a: b for a, b in v.items() if a != "tree"})
                                       for k, v in line.items()}})
    rel = relate_lines(r["out"])
    if expect_relations and not rel:
        raise ToolError("%s evaluated no relation (vacuous)" % spec)
    for (i, verdict, name) in rel:
        res.add("relations_checked")
        if verdict != "ok":
            line = json.loads(lines[i - 1])
            grp = [json.loads(x) for x in lines if x.strip() and json.loads(x).get("grp") == line.get("grp")]
            key = relation_key(name, grp) if relation_key else relation_prefix + name
            res.violation(key, {"group": grp, "at_line": i, "relation": name,
                                                    "rendered": [gv(["render"], input=json.dumps(g))[:3000] for g in grp[:4]]})
    return n, kinds


def record_and_judge(res, tier, n, cfgs, classify, spec="TraceEval", recorder="record-eval", expect_relations=False, relation_key=None):
    """impl -> spec: record n random evaluations per generator configuration and validate the
    trace against the trace specification.  classify(verdict, payloads, line) -> key or None."""
    total = 0
    for ci, cfg in enumerate(cfgs):
        tr = os.path.join(WORK, "trace_%s_%s_%s.ndjson" % (res.prop, spec, cfg))
        gv([recorder, "--seed", seed() * 7919 + ci, "--n", n, "--cfg", cfg, "--out", tr])
        cnt, kinds = validate_trace(res, spec, tr, classify, expect_relations=expect_relations, relation_key=relation_key)
        res.cov.setdefault("observed_kinds", {})[spec + ":" + cfg] = kinds
        total += cnt
        os.remove(tr)
    res.add("evaluations", total)
    return total


def block_family(res, tier):
    """MC_Block: every combination of per-value outcomes (PASS / FAIL / SKIP / unresolved) of a block
    clause over up to 3 (quick) / 4 values, all / some, with and without !empty: BlockLaw on the
    specification, every state replayed against the implementation"""
    r = tlc("MC_Block", env={"MAXN": "3" if tier == "quick" else "4"}, workers=8, timeout=1200, tag="mcblock", heap="4g")
    if r["violated"] or not r["ok"]:
        log(r["out"][-3000:])
        raise ToolError("MC_Block: BlockLaw fails on the specification")
    cases = os.path.join(WORK, "block_cases_%s.ndjson" % res.prop)
    n = 0
    with open(cases, "w") as f:
        for t in tlc_tuples(r["out"], "REPLAY"):
            f.write((t[1] if isinstance(t[1], str) else json.dumps(t[1])) + "\n")
            n += 1
    if n < 300:
        raise ToolError("MC_Block produced too few cases")
    mp = os.path.join(WORK, "block_mism_%s.ndjson" % res.prop)
    summ = json.loads(gv(["replay-prog", "--cases", cases, "--out", mp]).strip().split("\n")[-1])
    res.add("states", r["distinct"])
    res.add("transitions", r["states"])
    res.add("traces_validated_against_impl", summ["cases"])
    res.add("evaluations", summ["cases"])
    res.cov["block_family_cases"] = summ["cases"]
    for l in open(mp):
        mm = json.loads(l)
        res.violation("block-aggregation:spec-vs-impl", mm)
    for p_ in (cases, mp):
        os.remove(p_)
