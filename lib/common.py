"""Shared machinery of the /verif checks: building, running TLC, traces, findings, evidence."""
import hashlib, json, os, re, subprocess, sys, time

VERIF = os.path.dirname(os.path.dirname(os.path.abspath(__file__)))
REPO = os.environ.get("VERIF_REPO", "/repo")
SPEC = os.path.join(VERIF, "spec")
# scratch space of this process (checks may run side by side): /verif/.work/p<pid>, removed at exit
WORK = os.path.join(VERIF, ".work", "p%d" % os.getpid())
os.makedirs(WORK, exist_ok=True)


def _cleanup_work():
    import shutil
    if not os.environ.get("VERIF_KEEP"):
        shutil.rmtree(WORK, ignore_errors=True)


import atexit
atexit.register(_cleanup_work)
BUILD = os.path.join(VERIF, ".build")
GV = os.path.join(BUILD, "target", "debug", "gv")
TLA_CP = "/opt/veriftools/tla/tla2tools.jar:/opt/veriftools/tla/CommunityModules-deps.jar"


class ToolError(Exception):
    pass


def log(*a):
    print(*a, file=sys.stderr, flush=True)


def seed():
    try:
        return int(os.environ.get("VERIF_SEED", "1"))
    except ValueError:
        return 1


def sh(cmd, timeout=None, env=None, cwd=None, input=None):
    e = dict(os.environ)
    if env:
        e.update(env)
    p = subprocess.run(cmd, stdout=subprocess.PIPE, stderr=subprocess.STDOUT, text=True,
                       timeout=timeout, env=e, cwd=cwd, input=input)
    return p.returncode, p.stdout


_built = False


def build():
    """(Re)build the harness - and with it the cfn-guard library - from /repo's working tree."""
    global _built
    if _built:
        return
    t = time.time()
    env = {"CARGO_NET_OFFLINE": "true"}
    cwd = os.path.join(VERIF, "harness")
    if REPO != "/repo":
        # scratch copy of the repository (self-test of the checks against seeded changes)
        env["CARGO_TARGET_DIR"] = os.path.join(BUILD, "target")
    rc, out = sh(["cargo", "build", "--offline"], timeout=1800, env=env, cwd=cwd)
    if rc != 0:
        log(out[-4000:])
        raise ToolError("harness build failed")
    _built = True
    log("build: %.1fs" % (time.time() - t))


def build_bin():
    """Build the real cfn-guard binary from /repo's working tree (guard flag on)."""
    t = time.time()
    env = {"CARGO_NET_OFFLINE": "true", "CARGO_TARGET_DIR": os.path.join(BUILD, "repo-target"),
           "RUSTFLAGS": "--cfg guard_verif"}
    rc, out = sh(["cargo", "build", "--offline", "-p", "cfn-guard", "--bin", "cfn-guard"],
                 timeout=1800, env=env, cwd=REPO)
    if rc != 0:
        log(out[-4000:])
        raise ToolError("cfn-guard build failed")
    log("build cfn-guard: %.1fs" % (time.time() - t))
    return os.path.join(BUILD, "repo-target", "debug", "cfn-guard")


def gv(args, timeout=1800, input=None):
    rc, out = sh([GV] + [str(a) for a in args], timeout=timeout, input=input)
    if rc != 0:
        log(out[-3000:])
        raise ToolError("gv %s failed (%d)" % (args[0], rc))
    return out


TLC_STATS = re.compile(r"(\d+) states generated, (\d+) distinct states found")


def tlc(module, cfg=None, env=None, workers=1, timeout=1200, extra=None, tag="tlc", heap="4g",
        simulate=None):
    """Run TLC on spec/<module>.tla; returns dict(out, states, distinct, ok, violated)."""
    os.makedirs(WORK, exist_ok=True)
    meta = os.path.join(WORK, tag)
    subprocess.run(["rm", "-rf", meta])
    cmd = ["timeout", str(timeout), "java", "-XX:+UseParallelGC", "-Xss1g", "-Xmx" + heap,
           "-Dtlc2.tool.queue.IStateQueue=StateDeque" if workers == 1 and not simulate else "-Dx=y",
           "-cp", TLA_CP, "tlc2.TLC", "-workers", str(workers), "-metadir", meta, "-cleanup",
           "-noGenerateSpecTE", "-config", (cfg or module) + ".cfg"]
    if simulate:
        cmd += ["-simulate", simulate]
    if extra:
        cmd += extra
    cmd.append(module + ".tla")
    t = time.time()
    rc, out = sh(cmd, env=env, cwd=SPEC, timeout=timeout + 60)
    subprocess.run(["rm", "-rf", meta])
    res = {"out": out, "rc": rc, "wall": time.time() - t, "states": 0, "distinct": 0}
    m = None
    for m in TLC_STATS.finditer(out):
        pass
    if m:
        res["states"] = int(m.group(1))
        res["distinct"] = int(m.group(2))
    res["ok"] = "Model checking completed. No error has been found." in out or \
                (simulate is not None and rc in (0,) )
    res["violated"] = ("is violated" in out) or ("Invariant" in out and "violated" in out)
    if rc == 124:
        raise ToolError("TLC timeout on %s" % module)
    if not res["ok"] and not res["violated"] and "TRACE-REJECTED" not in out and not simulate:
        log(out[-6000:])
        raise ToolError("TLC failed on %s (rc=%d)" % (module, rc))
    return res


def tla_unescape(s):
    """undo TLC's string printing of a JSON text produced by ToJson"""
    return json.loads('"' + s + '"') if False else bytes(s, "utf-8").decode("unicode_escape").encode("latin1").decode("utf-8")


_ITEM = re.compile(r'"((?:[^"\\]|\\.)*)"|(-?\d+)|(TRUE|FALSE)')


def tlc_tuples(out, tag):
    """All flat tuples <<"tag", ...>> TLC printed (possibly wrapped over several lines), each
    as a python list of ints / strings (unescaped) / booleans."""
    res = []
    m1, m2 = '<<"%s"' % tag, '<< "%s"' % tag
    lines = out.split("\n")
    i, n = 0, len(lines)
    while i < n:
        l = lines[i]
        if l.startswith(m1) or l.startswith(m2):
            txt = l
            while not txt.rstrip().endswith(">>") and i + 1 < n:
                i += 1
                txt += " " + lines[i].strip()
            items = []
            for m in _ITEM.finditer(txt):
                if m.group(1) is not None:
                    items.append(tla_unescape(m.group(1)) if "\\" in m.group(1) else m.group(1))
                elif m.group(2) is not None:
                    items.append(int(m.group(2)))
                else:
                    items.append(m.group(3) == "TRUE")
            res.append(items)
        i += 1
    return res


JUDGE = re.compile(r'^<<"JUDGE", (\d+), "(\w+)"(?:, "(.*)")?>>$')


def judge_lines(out):
    """[(line number, verdict, [json payloads])]"""
    return [(t[1], t[2], t[3:]) for t in tlc_tuples(out, "JUDGE")]


def known_findings():
    p = os.path.join(VERIF, "known_findings.json")
    if not os.path.exists(p):
        return {"findings": [], "fixed": []}
    return json.load(open(p))


def finding_for(prop, key):
    for f in known_findings()["findings"]:
        if f["property"] == prop and f["key"] == key:
            return f
    return None


def write_replay(prop, case):
    d = os.path.join(VERIF, "replays", prop)
    os.makedirs(d, exist_ok=True)
    txt = json.dumps(case, sort_keys=True)
    h = hashlib.sha1(txt.encode()).hexdigest()[:12]
    p = os.path.join(d, h + ".json")
    with open(p, "w") as f:
        f.write(txt)
    return p


class Result:
    """Collects what one check run covered and found; writes evidence; decides the exit code."""

    def __init__(self, prop, tier, level):
        self.prop, self.tier, self.level = prop, tier, level
        self.t0 = time.time()
        self.cov = {"samples": []}
        self.assumptions = []
        self.violations = []      # (key, replay path)
        self.known = {}           # key -> count
        self.notes = []

    def add(self, key, n=1):
        self.cov[key] = self.cov.get(key, 0) + n

    def sample(self, s, cap=6):
        if len(self.cov["samples"]) < cap:
            self.cov["samples"].append(s)

    def violation(self, key, case):
        """a disagreement: known finding (listed in known_findings.json) or new violation"""
        f = finding_for(self.prop, key)
        if f is not None:
            self.known[key] = self.known.get(key, 0) + 1
            return
        if len(self.violations) < 20 or key not in {k for k, _ in self.violations}:
            p = write_replay(self.prop, dict(case, key=key, property=self.prop))
            self.violations.append((key, p))
        else:
            self.violations.append((key, self.violations[0][1]))

    def finish(self):
        for key, n in sorted(self.known.items()):
            f = finding_for(self.prop, key)
            print("KNOWN-FINDING: property=%s %s [%s] (%d occurrence(s) this run)" % (self.prop, f["what"], key, n))
        # one line per distinct key first, then further occurrences (at most 20 lines in all)
        firsts, rest, seen_keys = [], [], set()
        for key, p in self.violations:
            (rest if key in seen_keys else firsts).append((key, p))
            seen_keys.add(key)
        for key, p in (firsts + rest)[:20]:
            print("VIOLATION property=%s replay=%s" % (self.prop, p))
            print("  (%s)" % key)
        ev = {"property_id": self.prop, "tier": self.tier, "seed": seed(), "level": self.level,
              "coverage": self.cov, "assumptions": self.assumptions,
              "wall_s": round(time.time() - self.t0, 1), "violations": len(self.violations),
              "known_findings_met": self.known, "notes": self.notes}
        os.makedirs(os.path.join(VERIF, "evidence"), exist_ok=True)
        with open(os.path.join(VERIF, "evidence", self.prop + ".json"), "w") as f:
            json.dump(ev, f, indent=1)
        print("%s %s: %s (%.0fs)" % (self.prop, self.tier,
              "VIOLATED" if self.violations else "held on everything explored", time.time() - self.t0))
        return 1 if self.violations else 0
