"""C17 - input parameters are merged into the data without loss or silent override."""
import json, os, random
from common import *
import cli, clitrace


def run(tier):
    res = Result("C17", tier, "model_checking")
    res.assumptions = ["documents are split at their top-level keys; parameter files are JSON"]
    # merge laws on the specification: order independence, disjoint union, conflict => error
    r = tlc("MC_Merge", workers=4, timeout=900, tag="mcmerge")
    if r["violated"] or not r["ok"]:
        log(r["out"][-3000:])
        raise ToolError("MC_Merge: a merge law fails on the specification")
    res.add("states", r["distinct"])
    res.add("transitions", r["states"])
    n = 40 if tier == "quick" else 700
    rnd = random.Random(seed() + 17)
    wd = cli.Workdir("c17")
    tr = os.path.join(WORK, "trace_C17.ndjson")
    i = 0
    modes = [m for m in clitrace.MODES if (m["fmt"] in ("sjson", "junit", "pjson") or m["args"] == ["-S", "all"])]
    stats = {"disjoint": 0, "overlap_param_param": 0, "overlap_param_data": 0}
    with open(tr, "w") as f:
        pairs = clitrace.gen_pairs(seed() * 7351, n, "full")
        for k, c in enumerate(pairs):
            if c["doc"]["t"] != "map" or len(c["doc"]["k"]) < 1:
                continue
            overlap = [False, "pp", False, "pd", False, "pp"][k % 6]
            pdocs, ddoc = clitrace.split_top(c["doc"], rnd, overlap)
            stats[{False: "disjoint", "pp": "overlap_param_param", "pd": "overlap_param_data"}[overlap]] += 1
            rules = [{"parse": "ok", "prog": c["prog"], "text": c["rules"]}]
            # every other case has a second data file (a variant of the first): the parameters are
            # merged into each data file of the run
            ddoc2 = clitrace.mutate_doc(ddoc, rnd)
            texts = clitrace.render_docs(pdocs + [ddoc, ddoc2])
            texts, text2 = texts[:-1], texts[-1]
            data1 = [{"load": "ok", "doc": ddoc, "text": texts[-1]}]
            data2 = data1 + [{"load": "ok", "doc": ddoc2, "text": text2}]
            for rep in range(2):
                order = list(range(len(pdocs)))
                if rep == 1:
                    rnd.shuffle(order)
                # mode, entry point and number of data files are drawn independently of the kind of split
                mode = rnd.choice(modes)
                entry = rnd.choice(["files", "payload", "stdin"])
                data = data2 if (entry != "stdin" and rnd.random() < 0.5) else data1
                stats["two_data_files"] = stats.get("two_data_files", 0) + (1 if data is data2 else 0)
                i += 1
                line = clitrace.run_job(wd, i, rules, data, [texts[o] for o in order], mode, entry,
                                        params_docs=[pdocs[o] for o in order])
                f.write(json.dumps(line) + "\n")
            if not overlap:
                # a structured run over two data files with disjoint parameters: every data file gets them
                i += 1
                stats["two_data_files"] = stats.get("two_data_files", 0) + 1
                mode = [m for m in clitrace.MODES if m["fmt"] in ("sjson", "syaml", "junit", "sarif")][(k // 2) % 4]
                line = clitrace.run_job(wd, i, rules, data2, texts[:len(pdocs)], mode, ["files", "payload"][(k // 8) % 2],
                                        params_docs=pdocs)
                f.write(json.dumps(line) + "\n")
    wd.close()
    lines, bad = clitrace.judge(res, tr, i)
    res.add("evaluations", i)
    res.cov["splits"] = stats
    for l in lines[:2]:
        res.sample({"cli_line": {k: l[k] for k in ("mode", "cmd")}, "params": l["params"], "data": l["data"][0]["doc"], "exit": l["obs"]["exit"]})
    os.remove(tr)
    res.cov["rule"] = ("MC_Merge: merge laws over all pairs/triples of small maps; R: generated documents split at random into 1-3 "
                       "parameter files + data (disjoint, and deliberately overlapping; one or two data files), parameter files in two orders, plain / "
                       "structured / junit / print-json, files / stdin / payload; judged by TraceCli against Denote of the specification's "
                       "Merge of the parts (a clash must be an error exit, never a verdict)")
    return res.finish()


def replay(path):
    case = json.load(open(path))
    print(json.dumps(case)[:3000])
    return 1
