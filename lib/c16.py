"""C16 - `cfn-guard test` agrees with `cfn-guard validate` (also the test halves of C06 / C12)."""
import json, os, random, re, xml.etree.ElementTree as ET
from common import *
import cli, clitrace

STAT = ["PASS", "FAIL", "SKIP"]


def tests_yaml(cases, start=0, rename=None):
    out = []
    rename = rename or {}
    for k, c in enumerate(cases):
        out.append("- name: case%d" % (start + k + 1))
        out.append("  input: " + c["text"])
        out.append("  expectations:")
        if c["exp"]:
            out.append("    rules:")
            for n, s in c["exp"]:
                out.append("      %s: %s" % (json.dumps(rename[n]) if n in rename else n, s))
        else:
            out.append("    rules: {}")
    return "\n".join(out) + "\n"


PLAIN_FAIL = re.compile(r"^\s+(\S+): Expected = (\w+), Evaluated = \[(.*)\]$")
PLAIN_PASS = re.compile(r"^\s+(\S+): Expected = (\w+)$")
PLAIN_NOEXP = re.compile(r"^\s+No Test expectation was set for Rule (\S+)$")


def parse_plain(so):
    cases, cur, sect = [], None, None
    for line in cli.strip_ansi(so).split("\n"):
        if line.startswith("Test Case #"):
            cur = {"passed": [], "failed": [], "noexp": []}
            cases.append(cur)
            sect = None
            continue
        if cur is None:
            continue
        m = PLAIN_NOEXP.match(line)
        if m:
            cur["noexp"].append(m.group(1))
            continue
        if line.strip() == "PASS Rules:":
            sect = "P"
            continue
        if line.strip() == "FAIL Rules:":
            sect = "F"
            continue
        m = PLAIN_FAIL.match(line)
        if m and sect == "F":
            ev = [x.strip() for x in m.group(3).split(",") if x.strip()]
            cur["failed"].append([m.group(1), m.group(2), ev])
            continue
        m = PLAIN_PASS.match(line)
        if m and sect == "P":
            cur["passed"].append([m.group(1), m.group(2)])
    return cases


def parse_structured(j):
    """list (dir mode) or object (single) of test results -> cases of the first rules file"""
    if isinstance(j, list):
        j = j[0] if j else {}
    cases = []
    for tc in j.get("test_cases", []):
        cases.append({"passed": [[r["name"], r["evaluated"]] for r in tc["passed_rules"]],
                      "failed": [[r["name"], r["expected"], r["evaluated"]] for r in tc["failed_rules"]],
                      "noexp": [r["name"] for r in tc["skipped_rules"]]})
    return cases


def parse_junit(so, ncases):
    try:
        root = ET.fromstring(so)
    except ET.ParseError:
        return None
    cases = [{"passed": [], "failed": [], "noexp": None} for _ in range(ncases)]
    for tc in root.iter("testcase"):
        cid = tc.get("id") or ""
        m = re.match(r"case(\d+)$", cid)
        if not m:
            continue
        k = int(m.group(1)) - 1
        if k >= ncases:
            continue
        f = tc.find("failure")
        if f is not None:
            mm = re.match(r"Expected = (\w+), Evaluated = \[(.*)\]", f.text or "")
            if mm:
                cases[k]["failed"].append([tc.get("name"), mm.group(1), [x.strip() for x in mm.group(2).split(",") if x.strip()]])
        elif tc.get("status") == "pass":
            cases[k]["passed"].append([tc.get("name"), None])
    # the counters of the report: <testsuites tests= failures=>, <testsuite failures=>
    global LAST_JUNIT_COUNTS
    try:
        LAST_JUNIT_COUNTS = {"tests": int(root.get("tests", "-1")), "failures": int(root.get("failures", "-1")),
                             "suite_failures": sum(int(ts.get("failures", "0")) for ts in root.iter("testsuite")),
                             "testcases": sum(1 for _ in root.iter("testcase")), "failure_elements": sum(1 for _ in root.iter("failure"))}
    except ValueError:
        LAST_JUNIT_COUNTS = {"tests": -1, "failures": -1, "suite_failures": -1, "testcases": 0, "failure_elements": 0}
    return cases


LAST_JUNIT_COUNTS = None


def run_test_cmd(wd, i, c, cases, layout, fmt, events=None, two_files=None):
    base = "t%d" % i
    # every other run with two or more cases keeps them in two test files (read in name order)
    split = (len(cases) + 1) // 2 if (len(cases) >= 2 and (two_files if two_files is not None else i % 2 == 0)) else 0
    # the implicit default rule is known to `test` as <rules file as given>/default
    # (single file: the path as given; --dir: the file name without its extension)
    rename = None
    if c.get("bare_default"):
        rename = {"default": "rules/default" if layout == "dir" else os.path.join(wd.path, base, "rules.guard") + "/default"}
    if layout == "dir":
        wd.write("%s/rules.guard" % base, c["rules"])
        if split:
            wd.write("%s/tests/rules_tests.yaml" % base, tests_yaml(cases[:split], rename=rename))
            wd.write("%s/tests/rules_tests_more.yaml" % base, tests_yaml(cases[split:], start=split, rename=rename))
        else:
            wd.write("%s/tests/rules_tests.yaml" % base, tests_yaml(cases, rename=rename))
        args = ["test", "--dir", os.path.join(wd.path, base)]
    else:
        rp = wd.write("%s/rules.guard" % base, c["rules"])
        if split:
            wd.write("%s/tdir/rules_tests.yaml" % base, tests_yaml(cases[:split], rename=rename))
            wd.write("%s/tdir/rules_tests_more.yaml" % base, tests_yaml(cases[split:], start=split, rename=rename))
            args = ["test", "-r", rp, "-t", os.path.join(wd.path, base, "tdir"), "-a"]
        else:
            tp = wd.write("%s/rules_tests.yaml" % base, tests_yaml(cases, rename=rename))
            args = ["test", "-r", rp, "-t", tp]
    if fmt != "plain":
        args += ["-o", fmt]
    rc, so, se = cli.run(args, env={"GUARD_VERIF_EVENTS": events} if events else None)
    obs = {"exit": rc, "wf": True, "cases": [], "junit": fmt == "junit"}
    try:
        if fmt == "plain":
            obs["cases"] = parse_plain(so)
        elif fmt == "json":
            obs["cases"] = parse_structured(json.loads(so))
        elif fmt == "yaml":
            j = cli.yaml_to_json(so)
            if j is None:
                obs["wf"] = False
            else:
                obs["cases"] = parse_structured(j)
        else:
            cs = parse_junit(so, len(cases))
            if cs is None:
                obs["wf"] = False
            else:
                obs["cases"] = cs
                obs["counts"] = LAST_JUNIT_COUNTS
    except (ValueError, KeyError, TypeError):
        obs["wf"] = False
    # names of the implicit default rule are reported with the file in front
    for cs_ in obs["cases"]:
        for key in ("passed", "failed"):
            for ent in cs_.get(key) or []:
                if isinstance(ent[0], str) and ent[0].endswith("/default"):
                    ent[0] = "default"
        if cs_.get("noexp"):
            cs_["noexp"] = ["default" if (isinstance(x, str) and x.endswith("/default")) else x for x in cs_["noexp"]]
    return obs, args, so, se


def validate_on(wd, i, c, cases):
    """`validate --structured` on each extracted input: per-rule statuses (from the print-json record)"""
    out = []
    rp = wd.write("t%d/v_rules.guard" % i, c["rules"])
    for k, cs in enumerate(cases):
        dp = wd.write("t%d/v_in%d.json" % (i, k), cs["text"])
        rc, so, se = cli.run(["validate", "-r", rp, "-d", dp, "-S", "none", "-p"])
        rules = []
        ok = False
        try:
            docs = cli.split_json_docs(so)
            for d in docs:
                if "container" in d and "FileCheck" in (d["container"] or {}):
                    for ch in d["children"]:
                        r = ch["container"].get("RuleCheck")
                        if r:
                            nm = r["name"]
                            rules.append(["default" if nm.endswith("/default") else nm, r["status"]])
                    ok = True
        except (ValueError, KeyError, TypeError):
            ok = False
        out.append({"ok": ok, "rules": rules})
    return out


def typed_pairs():
    """hand-written programs that look at one value `v` in type-sensitive ways, over documents whose `v` is a
    whole-valued float, a float with a fraction, an int, a string of digits, a bool, null: the test command
    must evaluate the very document validate evaluates"""
    def key(name):
        return [{"p": "key", "k": [ord(ch) for ch in name]}]

    def un(op, neg=False):
        return {"c": "gac", "q": key("v"), "all": True, "neg": neg, "op": op, "on": False, "rhs": []}

    def cmp_(op, val):
        return {"c": "gac", "q": key("v"), "all": True, "neg": False, "op": op, "on": False, "rhs": [{"r": "val", "v": val}]}
    flt = lambda m: {"t": "flt", "v": m}
    it = lambda n: {"t": "int", "v": n}
    rules = [("is_f", un("is_float")), ("is_i", un("is_int")), ("is_s", un("is_string")),
             ("eq_f2", cmp_("eq", flt(2000))), ("eq_i2", cmp_("eq", it(2))), ("le_f", cmp_("le", flt(2500))),
             ("le_i", cmp_("le", it(100))), ("ge_f0", cmp_("ge", flt(0)))]
    prog = {"lets": [], "prules": [], "rules": [{"n": n, "w": [], "lets": [], "b": [[c]]} for n, c in rules]}
    vals = [flt(2000), flt(0), flt(20000), flt(1500), it(2), it(0), {"t": "str", "v": [50, 46, 48]}, {"t": "bool", "v": True}, {"t": "null"}]
    out = []
    for v in vals:
        doc = {"t": "map", "k": [[118], [119]], "v": [v, {"t": "list", "v": [flt(2000), it(2)]}]}
        out.append({"prog": json.loads(json.dumps(prog)), "doc": doc})
    lines = "\n".join(json.dumps(c) for c in out)
    rendered = [json.loads(l) for l in gv(["render-many"], input=lines).split("\n") if l.strip()]
    for c, r in zip(out, rendered):
        c["rules"], c["data"] = r["rules"], r["data"]
    return out


def record(res, tier, tr):
    open(tr + ".events", "w").close()
    n = 30 if tier == "quick" else 500
    rnd = random.Random(seed() + 16)
    rnd2 = random.Random(seed() + 1617)
    wd = cli.Workdir("c16")
    i = 0
    fmts = ["plain", "json", "yaml", "junit"]
    with open(tr, "w") as f:
        for ci, cfg in enumerate(["core", "dups", "full"]):
            pairs = clitrace.gen_pairs(seed() * 4243 + ci, n, cfg)
            # every second rules file also observes each of its rules through a reference by name
            clitrace.add_refs(pairs[0::2])
            # every fifth rules file has a rule called `default`
            clitrace.name_default(pairs[1::3], bare=True)
            if ci == 2:
                pairs = pairs + typed_pairs()
            for k, c in enumerate(pairs):
                names = sorted({r["n"] for r in c["prog"]["rules"]})
                ncases = rnd.choice([1, 2, 2, 3, 3, 4])
                cases = []
                # candidate inputs: the document the rules were generated for, variants of it and unrelated
                # documents; the test cases are picked so that the same rule comes out differently in the
                # cases of one file wherever the candidates allow it (state carried from one case to the
                # next then shows)
                cand_docs = [c["doc"]] + [clitrace.mutate_doc(c["doc"], rnd) for _ in range(4)]
                cand_texts = clitrace.render_docs(cand_docs)
                cands = [{"doc": d, "text": t} for d, t in zip(cand_docs, cand_texts)]
                for q in range(2):
                    o = pairs[(k + 1 + q) % len(pairs)]
                    cands.append({"doc": o["doc"], "text": o["data"]})
                i += 1
                vres = validate_on(wd, i, c, cands)
                order = list(range(len(cands)))
                rnd.shuffle(order)
                picked, seen_vec = [], set()
                for q in order:
                    vec = json.dumps(vres[q]["rules"])
                    if vec not in seen_vec and len(picked) < ncases:
                        seen_vec.add(vec)
                        picked.append(q)
                for q in order:
                    if len(picked) < ncases and q not in picked:
                        picked.append(q)
                rnd.shuffle(picked)
                clean_tail = rnd.random() < 0.4
                two_files = rnd.random() < 0.6
                for pos, q in enumerate(picked):
                    src = cands[q]
                    exp = []
                    # in every third file the cases of the second half expect what the rules give
                    # (a clean last test file after one with mismatches)
                    truthful = clean_tail and pos >= (len(picked) + 1) // 2 and vres[q]["ok"]
                    actual = {}
                    for nm_, st_ in (vres[q]["rules"] if truthful else []):
                        actual.setdefault(nm_, st_)
                    # a name defined several times whose definitions come out differently: expect SKIP
                    # if one of them is SKIP (the expectation is met only when every definition is SKIP)
                    multi = {}
                    for nm_, st_ in vres[q]["rules"]:
                        multi.setdefault(nm_, set()).add(st_)
                    for nm in names:
                        if truthful and nm in actual:
                            exp.append([nm, actual[nm]])
                        else:
                            pick = rnd.choice(STAT) if rnd.random() < 0.75 else None
                            if len(multi.get(nm, ())) > 1 and rnd2.random() < 0.6:
                                pick = "SKIP" if "SKIP" in multi[nm] else sorted(multi[nm])[0]
                            if pick:
                                exp.append([nm, pick])
                    if rnd.random() < 0.2 and not truthful:
                        exp.append(["no_such_rule", "PASS"])
                    cases.append({"doc": src["doc"], "text": src["text"], "exp": exp, "v": vres[q]})
                # a file with bare clauses (the implicit default rule, named after the rules file as given)
                # is run in every format and both layouts; the others in one format each
                runs = [(("dir" if (k % 3 == 0) else "single"), fmts[k % 4])]
                if c.get("bare_default"):
                    runs = [("single", x) for x in fmts] + [("dir", fmts[(k + 1) % 4])]
                    for cs_ in cases:
                        if not any(e[0] == "default" for e in cs_["exp"]):
                            cs_["exp"].append(["default", rnd.choice(STAT)])
                for ri, (layout, fmt) in enumerate(runs):
                    if ri > 0:
                        i += 1
                    evp = os.path.join(wd.path, "events_%d.ndjson" % i)
                    obs, args, so, se = run_test_cmd(wd, i, c, cases, layout, fmt, events=evp, two_files=two_files)
                    with open(tr + ".events", "a") as ef:
                        ef.write(json.dumps({"e": "begin", "i": i}) + "\n")
                        if os.path.exists(evp):
                            ef.write(open(evp).read())
                            os.remove(evp)
                        ef.write(json.dumps({"e": "end", "i": i, "ok": True, "check": False, "rules": []}) + "\n")
                    obs["validate"] = [x["v"] for x in cases]
                    if fmt == "junit":
                        # junit shows neither the rules without expectation nor the evaluated status of passes
                        for cs_ in obs["cases"]:
                            cs_["noexp"] = cs_["noexp"] or []
                    line = {"i": i, "prog": c["prog"], "cases": [{"doc": x["doc"], "exp": x["exp"]} for x in cases],
                            "layout": layout, "fmt": fmt, "obs": obs,
                            "cmd": {"args": [a.replace(wd.path + "/", "") for a in args], "stderr": se[:500], "stdout_head": so[:400]}}
                    f.write(json.dumps(line) + "\n")
    wd.close()
    return i


def normalise_for_format(line):
    """junit: fill what the format does not show from the expectations so that TraceTest can
    compare the rest (passed evaluated = expected; rules without expectation are not listed)"""
    if line["fmt"] != "junit" or not line["obs"]["wf"]:
        return
    for k, c in enumerate(line["obs"]["cases"]):
        exp = {n: s for n, s in line["cases"][k]["exp"]} if k < len(line["cases"]) else {}
        for p in c["passed"]:
            p[1] = exp.get(p[0], "?")
        c["noexp_hidden"] = True


def run_trace(res, tier):
    tr = os.path.join(WORK, "trace_C16.ndjson")
    n = record(res, tier, tr)
    lines = [json.loads(l) for l in open(tr)]
    for l in lines:
        normalise_for_format(l)
    # the set of rules without expectation is not shown by junit: give TraceTest the specification-independent
    # complement (all rule names of the file minus those with a shown result)
    for l in lines:
        if l["fmt"] == "junit":
            names = sorted({r["n"] for r in l["prog"]["rules"]})
            for k, c in enumerate(l["obs"]["cases"]):
                shown = {p[0] for p in c["passed"]} | {x[0] for x in c["failed"]}
                c["noexp"] = [n for n in names if n not in shown]
    with open(tr, "w") as f:
        for l in lines:
            f.write(json.dumps(l) + "\n")
    r = tlc("TraceTest", env={"TRACE": tr}, workers=1, timeout=3000, tag="ttest" + res.prop, heap="6g")
    if "TRACE-REJECTED" in r["out"] or not r["ok"]:
        log(r["out"][-3000:])
        raise ToolError("TraceTest did not consume the whole trace")
    res.add("states", r["distinct"])
    res.add("transitions", r["states"])
    by_i = {l["i"]: l for l in lines}
    seen = {}
    for t in tlc_tuples(r["out"], "RELATE"):
        i, verdict, name = t[1], t[2], t[3]
        seen[name] = seen.get(name, 0) + 1
        res.add("relations_checked")
        if verdict == "ok":
            res.add("traces_validated_against_impl")
        else:
            l = by_i[i]
            res.violation("test:%s:%s/%s" % (name, l["fmt"], l["layout"]), {"relation": name, "line": l})
    res.cov["relations"] = seen
    res.add("evaluations", n)
    # every test case gets a fresh RootScope (hook events of the test runs against GuardMachine)
    import c12
    c12.cli_events(res, tr + ".events")
    for l in lines[:2]:
        res.sample({"test_line": {k: l[k] for k in ("layout", "fmt", "cmd")}, "cases": l["cases"][:1], "shown": l["obs"]["cases"][:1], "exit": l["obs"]["exit"]})
    os.remove(tr)
    return n


def test_exit_codes(res, tier):
    """C06's `test` half: exit 0 / 7 / non-zero, judged by TraceTest's `exit` relation"""
    run_trace(res, tier)
    # files that do not parse: a non-zero exit, never 0
    wd = cli.Workdir("c16x")
    rp = wd.write("b.guard", "rule broken {\n a == \n}\n")
    tp = wd.write("b_tests.yaml", "- name: c\n  input: {}\n  expectations:\n    rules: {}\n")
    rc, so, se = cli.run(["test", "-r", rp, "-t", tp])
    if rc == 0:
        res.violation("test:exit:broken-rules-file-exits-0", {"args": ["test", "-r", "b.guard", "-t", "b_tests.yaml"], "exit": rc, "stdout": so[:500]})
    rp = wd.write("g.guard", "rule r { a exists }\n")
    tp = wd.write("g_tests.yaml", "- name: c\n  input: {\n")
    rc, so, se = cli.run(["test", "-r", rp, "-t", tp])
    if rc == 0:
        res.violation("test:exit:broken-test-file-exits-0", {"args": ["test", "-r", "g.guard", "-t", "g_tests.yaml"], "exit": rc, "stdout": so[:500]})
    res.add("evaluations", 2)
    wd.close()


def run(tier):
    res = Result("C16", tier, "model_checking")
    res.assumptions = ["expectations are drawn at random (about one third correct); rules files include files with repeated rule names",
                       "JUnit shows neither rules without expectation nor the evaluated status of met expectations; those are not compared for that format"]
    run_trace(res, tier)
    # --dir: which test files are run against which rules file (GuardFiles.IsTestNameOf)
    import files
    files.test_dirs(res, tier)
    res.cov["rule"] = ("random rules files (incl. repeated rule names) x 1-4 inputs x random expectations x {single file, --dir} x "
                       "{plain, json, yaml, junit}; per test case the met / unmet / no-expectation sets, the evaluated statuses and the "
                       "exit code judged by TraceTest against Denote of that input; evaluated statuses cross-checked against "
                       "`validate` on the extracted input")
    return res.finish()


def replay(path):
    case = json.load(open(path))
    print(json.dumps(case)[:3000])
    return 1
