def test_exit_codes(res, tier):
    pass
