"""C06 - exit codes of validate and test faithfully encode the outcome."""
import json, os
from common import *
import cli

RULE_FOR = {"PASS": "id exists", "FAIL": "id !exists", "ERR": "id empty"}


def rules_text(evs, loads):
    """a rules file whose status on data file j (the document {"id": j}) is evs[j]"""
    out = []
    for j, e in enumerate(evs):
        if loads[j] != "ok" or e == "SKIP":
            continue
        out.append("rule r%d when id == %d { %s }" % (j + 1, j + 1, RULE_FOR[e]))
    if not out:
        out.append("rule never when id == 0 { id exists }")
    return "\n".join(out) + "\n"


def materialise(scn, wd, payload=False, dirs=None):
    """dirs: a sub-directory name - rules and data are written into <dirs>/rules and <dirs>/data and the
    two directories are given as arguments (walked alphabetically: r1, r2, .. / d1, d2, ..)"""
    rules, data = [], []
    rtexts, dtexts = [], []
    rpre = (dirs + "/rules/") if dirs else ""
    dpre = (dirs + "/data/") if dirs else ""
    for i, k in enumerate(scn["rules"]):
        if k == "ok":
            txt = rules_text(scn["ev"][i], scn["data"])
        elif k == "broken":
            txt = "rule broken {\n  id == \n}\n"
        else:
            txt = "# only a comment\n"
        rules.append(wd.write(rpre + "r%d.guard" % (i + 1), txt))
        rtexts.append(txt)
    for j, k in enumerate(scn["data"]):
        dtxt = ('{"id": %d}' % (j + 1)) if k == "ok" else '{"id": '
        data.append(wd.write(dpre + "d%d.json" % (j + 1), dtxt))
        dtexts.append(dtxt)
    args = ["validate"]
    stdin = None
    if payload:
        args += ["--payload"]
        stdin = json.dumps({"rules": rtexts, "data": dtexts})
        data = ["DATA_STDIN[%d]" % (j + 1) for j in range(len(dtexts))]
    elif dirs:
        args += ["-r", os.path.join(wd.path, dirs, "rules"), "-d", os.path.join(wd.path, dirs, "data")]
    else:
        for r in rules:
            args += ["-r", r]
        for d in data:
            args += ["-d", d]
    if scn["conflict"]:
        args += ["-i", wd.write("p1.json", '{"id": 0}')]
    else:
        args += ["-i", wd.write("p1.json", '{"extra_parameter": 0}')]
    if scn["path"] == "structured":
        args += ["--structured", "-o", "json", "-S", "none"]
    elif scn["path"] == "junit":
        args += ["--structured", "-o", "junit", "-S", "none"]
    return args, data, stdin


def run_scenarios(res, out, limit=None):
    cases = [json.loads(t[1]) for t in tlc_tuples(out, "REPLAY")]
    if limit and len(cases) > limit:
        import random
        rnd = random.Random(seed())
        cases = rnd.sample(cases, limit)
    wd = cli.Workdir("c06")
    n = 0
    for scn in cases:
        payload = (n % 3 == 2)
        dirs = ("s%d" % n) if (not payload and n % 4 == 1) else None
        args, data, stdin = materialise(scn, wd, payload, dirs)
        cwd = None
        if dirs and n % 8 == 5 and scn["path"] != "structured":
            # the same directories named relative to the working directory: `-d .` from inside the data directory
            cwd = os.path.join(wd.path, dirs, "data")
            args = [("." if a == cwd else ("../rules" if a == os.path.join(wd.path, dirs, "rules") else a)) for a in args]
        rc, so, se = cli.run(args, stdin=stdin, cwd=cwd)
        n += 1
        want = scn["exit"]
        got = rc if rc >= 0 else rc
        key = None
        if got != want:
            kind = "panic" if ("panicked" in se) else "exit-code"
            key = "%s:%s%s:want-%d-got-%d" % (kind, scn["path"], "/payload" if payload else ("/dirs" if dirs else ""), want, got)
        elif scn["path"] == "structured" and not scn["aborted"]:
            # the report lists exactly the evaluated pairs with their statuses
            try:
                reps = cli.reports_from_structured(json.loads(so))
                for j, dname in enumerate(data):
                    if scn["data"][j] != "ok":
                        continue
                    sts = [scn["ev"][i][j] for i, k in enumerate(scn["rules"]) if k == "ok"]
                    want_st = "FAIL" if "FAIL" in sts else ("PASS" if "PASS" in sts else "SKIP")
                    rep = reps.get(dname if payload else os.path.realpath(dname))
                    if rep is None or rep["status"] != want_st:
                        key = "structured-report:status-differs"
            except ValueError:
                key = "structured-report:not-json"
        if key:
            res.violation(key, {"scenario": scn, "args": args, "exit": rc, "stdout": so[:2000], "stderr": se[:2000]})
        else:
            res.add("traces_validated_against_impl")
        if n in (1, len(cases) // 2):
            res.sample({"scenario": scn, "args": [a.replace(wd.path, ".") for a in args], "exit": rc})
    wd.close()
    res.add("evaluations", n)
    return n


def unbounded_fold(res):
    """ExitFold: the three exit-code folds for any number of files; Apalache checks that IndInv is
    inductive and implies the allowed codes (MC_Cli.FoldAgrees ties the fold to the driver machine)"""
    d = os.path.join(SPEC, "apalache")
    out_dir = os.path.join(WORK, "apalache")
    steps = [("initiation", ["--init=Init", "--inv=IndInv", "--length=0"]),
             ("consecution", ["--init=IndInit", "--inv=IndInv", "--length=1"]),
             ("implies-final", ["--init=IndInit", "--inv=Final", "--length=0"])]
    ok = 0
    for name, args in steps:
        rc, out = sh(["timeout", "600", "apalache-mc", "check"] + args + ["--out-dir=" + out_dir, "ExitFold.tla"], cwd=d, timeout=700)
        if "EXITCODE: OK" in out:
            ok += 1
        elif "EXITCODE: ERROR (12)" in out:
            raise ToolError("ExitFold: IndInv is not inductive (%s)" % name)
        else:
            log(out[-1500:])
            raise ToolError("apalache-mc failed on ExitFold (%s)" % name)
    res.cov["unbounded_fold_obligations"] = {"checked": len(steps), "ok": ok, "tool": "apalache-mc 0.58 (IndInv inductive, implies Final)"}
    import shutil
    shutil.rmtree(out_dir, ignore_errors=True)


def run(tier):
    res = Result("C06", tier, "model_checking")
    res.assumptions = ["scenario files are canonical ({\"id\": j} documents, one guarded rule per data file); richer file contents are covered by C07/C12",
                       "when a rules file fails to parse and another evaluation FAILs the property allows 5 or 19"]
    cfg = "MC_Cli" if tier == "quick" else "MC_Cli_thorough"
    r = tlc("MC_Cli", cfg=cfg, workers=8, timeout=2400, tag="mccli", heap="8g")
    if r["violated"] or not r["ok"]:
        log(r["out"][-3000:])
        raise ToolError("MC_Cli: the driver model leaves the exit-code table")
    res.add("states", r["distinct"])
    res.add("transitions", r["states"])
    run_scenarios(res, r["out"], limit=1200 if tier == "quick" else 12000)
    unbounded_fold(res)
    import c16
    c16.test_exit_codes(res, tier)
    res.cov["rule"] = ("MC_Cli: every scenario of <= NR rules files (ok/broken/empty) x <= ND data files (ok/malformed) x outcome "
                       "assignment (PASS/FAIL/SKIP/evaluation error) x parameter conflict x code path (plain, structured, junit), "
                       "run step by step through the GuardCli machine; terminal states materialised as real files and run through the "
                       "cfn-guard binary (process exit status compared with the machine's); FoldAgrees + Apalache: the exit-code folds "
                       "satisfy the table for any number of files (inductive invariant of spec/apalache/ExitFold.tla)")
    return res.finish()


def replay(path):
    case = json.load(open(path))
    print(json.dumps(case)[:3000])
    return 1
