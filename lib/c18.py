"""C18 - built-in functions compute what their documentation says."""
import json, os
from common import *
import core, c01


def classify(verdict, payloads, line):
    if verdict in ("ok", "unknown"):
        return None
    if verdict == "dev":
        return "deviation:" + payloads[0]
    return "verdict-mismatch"


def run(tier):
    res = Result("C18", tier, "model_checking")
    res.assumptions = ["json_parse / url_decode / regex_replace are judged against reference results computed by the harness (strict JSON via serde_json, own percent decoder, whole-string regex matches only); other inputs of these functions are not asserted",
                       "case mapping is modelled for ASCII, e-acute and sharp s; float formatting for 3-decimal values; now() and parse_epoch are not modelled",
                       "regex_replace on partial matches is not asserted (the documentation does not define it)"]
    r = tlc("MC_Fn", workers=8, timeout=1200, tag="mcfn", heap="6g")
    if r["violated"] or not r["ok"]:
        log(r["out"][-3000:])
        raise ToolError("MC_Fn: a law fails on the specification")
    cases = os.path.join(WORK, "fn_cases.ndjson")
    n = 0
    with open(cases, "w") as f:
        for t in tlc_tuples(r["out"], "REPLAY"):
            f.write(t[1] + "\n")
            n += 1
    if n < 500:
        raise ToolError("MC_Fn produced too few cases")
    mp = os.path.join(WORK, "fn_mism.ndjson")
    summ = json.loads(gv(["replay-prog", "--cases", cases, "--out", mp]).strip().split("\n")[-1])
    res.add("states", r["distinct"])
    res.add("transitions", r["states"])
    res.add("traces_validated_against_impl", summ["cases"])
    res.add("evaluations", summ["cases"])
    res.cov["mc_fn_observed_kinds"] = summ["kinds"]
    res.cov["exhaustive_function_table"] = True
    with open(cases) as f:
        for i, l in enumerate(f):
            if i in (3, n // 2):
                c = json.loads(l)
                res.sample({"fn_case": {"lets": c["prog"]["lets"], "doc": c["doc"], "expect": c["expect"]}})
    for l in open(mp):
        mm = json.loads(l)
        key = "function-table:" + ("panic" if mm["observed"]["kind"] == "panic" else "result-differs")
        res.violation(key, mm)
    for p in (cases, mp):
        os.remove(p)
    core.record_and_judge(res, tier, 1500 if tier == "quick" else 20000, ["fn"], classify)
    # the table-driven functions over lists of several strings (every element is converted on its own)
    tr = os.path.join(WORK, "trace_C18_fntable.ndjson")
    gv(["record-fn-table", "--out", tr])
    cnt, kinds = core.validate_trace(res, "TraceEval", tr, lambda v, p, l: None if v in ("ok", "unknown") else "function-table:" + classify(v, p, l))
    res.cov["fn_table_lines"] = {"lines": cnt, "kinds": kinds}
    os.remove(tr)
    res.cov["rule"] = ("MC_Fn: every (function x argument value x argument form [query, [*] query, variable, literal, nested call] x "
                       "offsets/delimiter) state, laws as TLC invariants, each state replayed as a probing program; R: random programs "
                       "whose lets and right-hand sides call the functions (incl. json_parse/url_decode/regex_replace against reference tables)")
    return res.finish()


def replay(path):
    return c01.replay(path)
