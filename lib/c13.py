"""C13 - comparison operators form a coherent algebra (DESIGN section 5, C13)."""
import json, os, re
from common import *
import core


def run(tier):
    res = Result("C13", tier, "model_checking")
    res.assumptions = ["integers are order-embedded (sentinels for the i64 extremes), floats are 3-decimal literals plus 1e308 / 5e-324 sentinels; f64 and fancy_regex themselves are trusted",
                       "regexes: literal/anchor fragment"]
    r = tlc("MC_C13", workers=8, timeout=1500, tag="c13", heap="8g")
    if not r["ok"]:
        log(r["out"][-3000:])
        raise ToolError("MC_C13 failed")
    cases = os.path.join(WORK, "c13_cases.ndjson")
    tables, n = core.extract_tlc_tables(r["out"], cases)
    if n < 1000:
        raise ToolError("MC_C13 produced too few cases (vacuous)")
    # laws that fail on the specification's matrix (the matrix is then compared cell by cell
    # with the implementation, so a law broken on it is broken by the implementation)
    laws = {}
    for l in r["out"].split("\n"):
        m = re.match(r'^<<"LAW", "([^"]*)", "(.*)">>$', l.strip())
        if m:
            laws.setdefault(m.group(1), []).append(json.loads(tla_unescape(m.group(2))))
    tp = os.path.join(WORK, "c13_tables.json")
    json.dump(tables, open(tp, "w"))
    mp = os.path.join(WORK, "c13_mism.ndjson")
    summ = json.loads(gv(["replay-e1", "--tables", tp, "--cases", cases, "--out", mp, "--threads", 12]).strip().split("\n")[-1])
    res.add("states", r["distinct"])
    res.add("transitions", r["states"])
    res.add("traces_validated_against_impl", summ["cases"])
    res.add("evaluations", summ["evaluations"])
    res.cov["exhaustive"] = True
    res.cov["matrix"] = {"values": len(tables["docs"]), "rhs": len(tables["rhs"]), "op_rhs": len(tables["oprhs"])}
    res.cov["laws_broken_on_matrix"] = {k: len(v) for k, v in laws.items()}
    for l in open(mp):
        mm = json.loads(l)
        res.violation("matrix-cell:" + mm["kind"], mm)
    for name, infos in sorted(laws.items()):
        for info in infos:
            res.violation("law:" + name, {"law": name, "instance": info})
    with open(cases) as f:
        for i, l in enumerate(f):
            if i in (5, n // 2):
                c = json.loads(l)
                res.sample({"cell": c, "doc": tables["docs"][c["d"] - 1], "op_rhs": tables["oprhs"][c["o"] - 1]})
    for p in (cases, tp, mp):
        os.remove(p)
    res.cov["rule"] = "every (document value x operator x right-hand side) cell of MC_C13 in 2-4 polarities; laws evaluated by TLC on the whole matrix; every cell replayed against run_checks"
    return res.finish()


def replay(path):
    case = json.load(open(path))
    print(json.dumps(case)[:2000])
    return 1
