"""C08 - no input crashes the tool; bad input is reported as an error."""
import json, os, re, subprocess
from concurrent.futures import ThreadPoolExecutor
from common import *
import cli

LOCATED = re.compile(r"line:?\s*\d+.{0,40}?column:?\s*\d+", re.I | re.S)
PANIC = re.compile(r"panicked at|RUST_BACKTRACE|fatal runtime error")


def norm_msg(m):
    m = re.sub(r"[0-9]+", "N", m or "")
    return re.sub(r"[^A-Za-z: _-]+", " ", m).strip()[:60].replace(" ", "-")


def fuzz_case(sd, i):
    return json.loads(gv(["fuzz-case", "--seed", sd, "--i", i]))


def lib_lines(res, sd, n, out):
    """run the worker over cases [0, n); restart it after every case that killed it"""
    if os.path.exists(out):
        os.remove(out)
    frm, aborts = 0, {}
    while frm < n:
        p = subprocess.run([GV, "fuzz-worker", "--seed", str(sd), "--from", str(frm), "--to", str(n), "--out", out],
                           stdout=subprocess.PIPE, stderr=subprocess.PIPE, text=True, timeout=3000)
        if p.returncode == 0:
            break
        last = None
        for l in open(out):
            j = json.loads(l)
            if "start" in j:
                last = j["start"]
        if last is None or last < frm:
            raise ToolError("fuzz worker failed before its first case: rc=%d %s" % (p.returncode, p.stderr[-300:]))
        aborts[last] = {"rc": p.returncode, "msg": (p.stderr.strip().split("\n") or [""])[-1][:200]}
        frm = last + 1
        if len(aborts) > n:
            raise ToolError("fuzz worker keeps dying")
    lines = []
    done = set()
    for l in open(out):
        j = json.loads(l)
        if "start" in j:
            continue
        j["src"] = "lib"
        j["located"] = bool(LOCATED.search(j["pt"].get("msg", "")))
        lines.append(j)
        done.add(j["i"])
    for i, a in aborts.items():
        if i not in done:
            c = fuzz_case(sd, i)
            lines.append({"i": i, "kind": c["kind"], "src": "lib", "abort": a})
    lines.sort(key=lambda x: x["i"])
    os.remove(out)
    return lines


def end_of(rc):
    if rc == -9:
        return {"kind": "timeout", "code": 0}
    if rc < 0:
        return {"kind": "signal", "code": -rc}
    return {"kind": "exit", "code": rc}


def cli_case(wd, sd, i, accepted, case=None):
    c = case or fuzz_case(sd, i)
    base = "c%d" % i
    rp = wd.write(base + "/r.guard", c["rules"])
    dp = wd.write(base + ("/d.yaml" if c["kind"] == "adv-yaml" else "/d.json"), c["data"])
    tp = wd.write(base + "/t.json", c["template"])
    if c["kind"] == "adv-yaml":
        tests = "- name: one\n  input:\n%s  expectations:\n    rules: {}\n" % "".join("    " + x + "\n" for x in c["data"].split("\n"))
    else:
        tests = "- name: one\n  input: %s\n  expectations:\n    rules: {}\n" % (c["data"].replace("\n", " ") or "{}")
    tsp = wd.write(base + "/r_tests.yaml", tests)
    out = []
    rs = wd.write(base + "/r.ruleset", c["rules"])
    for cmd, args in (("validate", ["validate", "-r", rp, "-d", dp, "--structured", "-o", "json", "-S", "none"]),
                      ("validate", ["validate", "-r", rs, "-d", dp, "--structured", "-o", "junit", "-S", "none"]),
                      ("validate", ["validate", "-r", rs, "-d", dp, "--structured", "-o", "sarif", "-S", "none"]),
                      ("validate", ["validate", "-r", rp, "-d", dp, "--structured", "-o", "yaml", "-S", "none"]),
                      ("validate", ["validate", "-r", rp, "-d", dp, "-S", "all", "-v"]),
                      ("test", ["test", "-r", rp, "-t", tsp]),
                      ("parse-tree", ["parse-tree", "-r", rp, "--print-json"]),
                      ("rulegen", ["rulegen", "-t", tp])):
        evp = os.path.join(wd.path, base, "events.ndjson")
        if os.path.exists(evp):
            os.remove(evp)
        rc, so, se = cli.run(args, env={"GUARD_VERIF_EVENTS": evp}, timeout=30)
        evaluated = 0
        if os.path.exists(evp):
            evaluated = sum(1 for l in open(evp) if '"rule_eval_begin"' in l)
        text = se + "\n" + so[:4000]
        out.append({"i": i, "kind": c["kind"], "src": "cli", "cmd": cmd, "accepted": accepted, "end": end_of(rc),
                    "panic": bool(PANIC.search(se)), "located": bool(LOCATED.search(text)),
                    "message": bool(se.strip()) or "rror" in so, "evaluated": evaluated,
                    "_args": [a.replace(wd.path + "/", "") for a in args], "_stderr": se[:600], "_case": c})
    return out


def byte_cases(wd):
    """files that are not UTF-8 / not text at all"""
    import random
    rnd = random.Random(seed() + 8)
    out = []
    blobs = [bytes([0xff, 0xfe, 0x00, 0x41]), bytes(rnd.randrange(256) for _ in range(200)), b"rule r { a == \xc3 }\n",
             b"{\"a\": \"\xed\xa0\x80\"}", b"\x00" * 50, b"\xef\xbb\xbfrule r { a exists }\n"]
    good_rules = "rule r { a exists }\n"
    good_data = '{"a": 1}'
    # data that does not parse, with a multi-byte character around the place where the diagnostic cuts its excerpt
    for pad in range(88, 96):
        for ch in ("é", "日", "😀"):
            blobs.append(('{"a": "' + "x" * pad + ch * 3).encode("utf-8"))
    for k, b in enumerate(blobs):
        base = "b%d" % k
        os.makedirs(os.path.join(wd.path, base), exist_ok=True)
        def blob(name):
            p = os.path.join(wd.path, base, name)
            open(p, "wb").write(b)
            return p
        rp = wd.write(base + "/r.guard", good_rules)
        dp = wd.write(base + "/d.json", good_data)
        for cmd, args, acc in (("validate", ["validate", "-r", blob("blob.guard"), "-d", dp], False), ("validate", ["validate", "-r", rp, "-d", blob("blob.json")], True),
                               ("validate", ["validate", "-r", rp, "-d", blob("blob.yaml"), "--structured", "-o", "json", "-S", "none"], True),
                               ("validate", ["validate", "-r", rp, "-d", dp, "-i", blob("blob_params.json")], True), ("test", ["test", "-r", rp, "-t", blob("blob_tests.yaml")], True),
                               ("parse-tree", ["parse-tree", "-r", blob("blob2.guard")], False), ("rulegen", ["rulegen", "-t", blob("blob_template.json")], True)):
            rc, so, se = cli.run(args, timeout=30)
            # whether the parser would accept the bytes is not known here: only termination is judged
            out.append({"i": 900000 + len(out), "kind": "bytes", "src": "cli", "cmd": cmd, "accepted": True, "end": end_of(rc),
                        "panic": bool(PANIC.search(se)), "located": True, "message": bool(se.strip()) or "rror" in so, "evaluated": 0,
                        "_args": [a.replace(wd.path + "/", "") for a in args], "_stderr": se[:600], "_case": {"blob": list(b[:40])}})
    # directory arguments that hold no usable file
    empty = os.path.join(wd.path, "emptydir")
    os.makedirs(empty, exist_ok=True)
    readme = os.path.join(wd.path, "readmedir")
    os.makedirs(readme, exist_ok=True)
    open(os.path.join(readme, "README.txt"), "w").write("nothing here\n")
    rp = wd.write("dirs/r.guard", good_rules)
    dp = wd.write("dirs/d.json", good_data)
    for d in (empty, readme):
        for cmd, args in (("validate", ["validate", "-r", rp, "-d", dp, "-i", d]), ("validate", ["validate", "-r", rp, "-d", d]),
                          ("validate", ["validate", "-r", d, "-d", dp]), ("validate", ["validate", "-r", rp, "-d", dp, "-i", d, "--structured", "-o", "json", "-S", "none"]),
                          ("validate", ["validate", "-r", d, "-d", d, "--structured", "-o", "junit", "-S", "none"]),
                          ("test", ["test", "--dir", d]), ("test", ["test", "-r", rp, "-t", d])):
            rc, so, se = cli.run(args, timeout=30)
            out.append({"i": 900000 + len(out), "kind": "empty-dir", "src": "cli", "cmd": cmd, "accepted": True, "end": end_of(rc),
                        "panic": bool(PANIC.search(se)), "located": True, "message": bool(se.strip()) or "rror" in so, "evaluated": 0,
                        "_args": [a.replace(wd.path + "/", "") for a in args], "_stderr": se[:600], "_case": {"blob": []}})
    return out


def key_of(line, name):
    if "abort" in line:
        return "lib:abort:%s:%s" % (norm_msg(line["abort"]["msg"]), line["kind"])
    if line["src"] == "lib":
        if name == "terminates-normally":
            m = next((line[k].get("msg", "") for k in ("lib", "libv", "pt") if line[k]["kind"] == "panic"), "")
            return "lib:panic:%s" % norm_msg(m)
        return "lib:%s:%s" % (name, line["kind"])
    if name == "terminates-normally":
        what = line["end"]["kind"] if line["end"]["kind"] != "exit" else "panic"
        m = re.search(r"panicked at[^\n]*\n?([^\n]*)", line.get("_stderr", ""))
        return "cli:%s:%s:%s" % (line["cmd"], what, norm_msg(m.group(1) if m else line.get("_stderr", "")[-80:]))
    return "cli:%s:%s" % (line["cmd"], name)


def validate(res, lines, label):
    tr = os.path.join(WORK, "trace_C08_%s.ndjson" % label)
    with open(tr, "w") as f:
        for k, l in enumerate(lines):
            f.write(json.dumps(dict({a: b for a, b in l.items() if not a.startswith("_")}, i=k + 1)) + "\n")
    r = tlc("TraceLifecycle", env={"TRACE": tr}, workers=1, timeout=3000, tag="tr_C08", heap="6g")
    if "TRACE-REJECTED" in r["out"] or not r["ok"]:
        log(r["out"][-3000:])
        raise ToolError("TraceLifecycle did not consume the whole trace")
    res.add("states", r["distinct"])
    res.add("transitions", r["states"])
    seen = res.cov.setdefault("relations", {})
    for t in tlc_tuples(r["out"], "RELATE"):
        i, verdict, name = t[1], t[2], t[3]
        res.add("relations_checked")
        seen[label + ":" + name] = seen.get(label + ":" + name, 0) + 1
        if verdict == "ok":
            res.add("traces_validated_against_impl")
        else:
            line = lines[i - 1]
            case = line.get("_case") or fuzz_case(line.get("_seed", 0), line["i"])
            res.violation(key_of(line, name), {"relation": name, "line": {k: v for k, v in line.items() if k != "_case"}, "case": case})
    os.remove(tr)


def run(tier):
    res = Result("C08", tier, "exploration")
    res.assumptions = ["document nesting depth is bounded by 60 levels (the property's proviso)",
                       "cases are a function of (seed, index): generated programs incl. functions, rule-reference cycles, hand-written adversarial shapes "
                       "(chained filters, literal variables, function argument mismatches), 1-3 text mutations (truncate, delete, duplicate, splice, unicode / token insertion) "
                       "of rules, data and template texts",
                       "a hang is a run that does not end within 30 s"]
    # 1. the driver model: every scenario ends with a documented exit code
    r = tlc("MC_Cli", cfg="MC_Cli", workers=8, timeout=2400, tag="mccli08", heap="8g")
    if r["violated"] or not r["ok"]:
        log(r["out"][-3000:])
        raise ToolError("MC_Cli fails on the driver model")
    res.add("states", r["distinct"])
    res.add("transitions", r["states"])
    # 2. library entry points in a worker process
    n = 2400 if tier == "quick" else 80000
    sd = seed() * 7 + 8
    lines = lib_lines(res, sd, n, os.path.join(WORK, "fuzz_C08.ndjson"))
    for l in lines:
        l["_seed"] = sd
    kinds = {}
    for l in lines:
        kinds[l["kind"]] = kinds.get(l["kind"], 0) + 1
    res.cov["library_cases"] = kinds
    res.cov["rejected_rules_texts"] = sum(1 for l in lines if l.get("accepted") is False)
    # distinct cases that got past the parser (the evaluator or a loader saw them) or that killed the worker
    res.cov["distinct_nontrivial"] = len({l.get("h", "abort%d" % l["i"]) for l in lines if l.get("accepted", True)})
    for i in (0, 2, 4):
        if i < len(lines):
            c = fuzz_case(sd, lines[i]["i"])
            res.sample({"case": {"kind": c["kind"], "rules": c["rules"][:600], "data": c["data"][:300]},
                        "outcome": {k: lines[i].get(k) for k in ("accepted", "pt", "lib", "libv", "evaluated", "abort") if k in lines[i]}})
    accepted = {l["i"]: l.get("accepted", True) for l in lines}
    for chunk in range(0, len(lines), 20000):
        validate(res, lines[chunk:chunk + 20000], "lib")
    # 3. the same cases through the real binary
    want = {"cycle", "mut-rules", "adversarial", "adv-yaml", "known-invalid", "mut-data"}
    stride = 3 if tier == "quick" else 12
    picks = [l["i"] for k, l in enumerate(lines) if l["kind"] in want and (l["i"] // 10) % stride == 0][: (420 if tier == "quick" else 4000)]
    wd = cli.Workdir("c08")
    cli.guard_bin()
    clines = []
    with ThreadPoolExecutor(max_workers=10) as pool:
        for out in pool.map(lambda i: cli_case(wd, sd, i, accepted.get(i, True)), picks):
            clines.extend(out)
    clines.extend(byte_cases(wd))
    # cases an earlier run found (kept under /verif/fixtures/c08): always replayed
    fx = os.path.join(VERIF, "fixtures", "c08")
    for k, name in enumerate(sorted(os.listdir(fx))):
        clines.extend(cli_case(wd, sd, 800000 + k, True, case=json.load(open(os.path.join(fx, name)))))
    wd.close()
    res.cov["cli_runs"] = len(clines)
    for l in clines[:2]:
        res.sample({"cli": {"args": l["_args"], "end": l["end"], "panic": l["panic"], "stderr": l["_stderr"][:200]}})
    validate(res, clines, "cli")
    res.add("evaluations", len(lines) + len(clines))
    res.cov["rule"] = ("MC_Cli: every driver scenario ends with a documented exit code; (seed, index) cases through run_checks (both verbosities) and "
                       "parse-tree in a worker process that is restarted when a case kills it, and through validate (2 modes), test, parse-tree and "
                       "rulegen of the real binary, plus non-UTF-8 files; TraceLifecycle: a result or a diagnostic, never a panic / signal / hang; "
                       "rejected rules texts: located parse error and no rule evaluated (hook events)")
    return res.finish()


def replay(path):
    """re-run the recorded case against the current tree: 1 if it still ends abnormally / unrejected"""
    j = json.load(open(path))
    case, line = j.get("case") or {}, j.get("line") or {}
    if "blob" in case or "rules" not in case:
        print(json.dumps(j)[:3000])
        return 1
    build()
    res = Result("C08", "quick", "exploration")
    wd = cli.Workdir("c08replay")
    accepted = line.get("accepted", True)
    lines = cli_case(wd, 0, 1, accepted, case=case)
    # the library entry point in a process of its own
    rp, dp = wd.write("lib/r.guard", case["rules"]), wd.write("lib/d.json", case["data"])
    p = subprocess.run([GV, "run", "--rules", rp, "--data", dp], stdout=subprocess.PIPE, stderr=subprocess.PIPE, text=True, timeout=120)
    wd.close()
    bad = p.returncode != 0 or p.stdout.startswith("PANIC")
    if bad:
        print("library: rc=%d %s %s" % (p.returncode, p.stdout[:200], p.stderr[-200:]))
    for k, l in enumerate(lines):
        l["i"] = k + 1
        e = l["end"]
        abnormal = e["kind"] != "exit" or l["panic"] or e["code"] == 101
        unrejected = (not accepted) and l["cmd"] in ("validate", "test", "parse-tree") and (e["code"] in (0, 19, 7) and l["cmd"] != "parse-tree" or l["evaluated"] > 0)
        if abnormal or unrejected:
            bad = True
            print("%s %s: %s %s" % (l["cmd"], " ".join(l["_args"][1:]), e, l["_stderr"][:200]))
    print("still failing" if bad else "no longer reproduces")
    return 1 if bad else 0
