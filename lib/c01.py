"""C01 - rule verdicts equal the documented semantics (DESIGN section 5, C01)."""
import os
from common import *
import core


def classify(verdict, payloads, line):
    if verdict == "ok":
        # panics / aborts are C08's business; here they only count as agreement when the
        # specification also says the construct is undefined
        return None
    if verdict == "dev":
        return "deviation:" + payloads[0]
    return "verdict-mismatch"


CLASSIFY_VK = lambda v, p, l: None if v in ("ok", "unknown") else ("vkey:" + ("deviation" if v == "dev" else "verdict-mismatch"))


def run(tier):
    res = Result("C01", tier, "model_checking")
    res.assumptions = [
        "document keys are chosen so that the undocumented case-converter key fallback never maps an absent key onto a present one (A1)",
        "numbers are order-embedded integers / 3-decimal floats; regexes are the literal/anchor fragment",
        "TLC, the JSON community module and the harness renderer are trusted"]
    core.e1(res, tier, lambda mm: ("e1:" + mm["kind"]) if mm["kind"] == "spec-vs-impl" else None)
    core.block_family(res, tier)
    n = 1500 if tier == "quick" else 12000
    core.record_and_judge(res, tier, n, ["core", "full"], classify)
    # variable keys in the middle of a query (`map.%v.x`): an enumerated family through TraceEval
    tr_vk = os.path.join(WORK, "trace_%s_vkey.ndjson" % res.prop)
    gv(["record-vkey", "--out", tr_vk])
    core.validate_trace(res, "TraceEval", tr_vk, CLASSIFY_VK)
    os.remove(tr_vk)
    res.cov["rule"] = ("E1: every (query shape x quantifier x operator x right-hand side x document) state of MC_E1 "
                       "under 2-4 polarities; R: seeded random rule files x documents (generator gen.rs), every line "
                       "judged by TraceEval against Denote")
    return res.finish()


def replay(path):
    import json
    case = json.load(open(path))
    res = Result("C01", "quick", "model_checking")
    if "line" in case:
        import os
        tr = os.path.join(WORK, "replay_C01.ndjson")
        line = case["line"]
        out = gv(["reobserve"], input=json.dumps(line))
        open(tr, "w").write(out.strip() + "\n")
        r = tlc("TraceEval", env={"TRACE": tr}, workers=1, timeout=600, tag="replay_C01")
        v = judge_lines(r["out"])
        print(v)
        return 1 if v and v[0][1] != "ok" else 0
    else:
        out = gv(["replay-one-e1"], input=json.dumps(case))
        print(out)
        return 1 if '"same":false' in out else 0
