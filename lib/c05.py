"""C05 - evaluation is deterministic: same inputs, same bytes, same exit code."""
import hashlib, json, os, random, re
from concurrent.futures import ThreadPoolExecutor
from common import *
import cli, clitrace

RUNS = 5
ENVS = [{"TZ": "UTC", "LANG": "C"}, {"TZ": "Asia/Tokyo", "LANG": "en_US.UTF-8", "HOME": "/nonexistent"},
        {"TZ": "America/New_York", "LC_ALL": "C.UTF-8", "COLUMNS": "40"}, {"TZ": "UTC", "RUST_LOG": "debug", "TERM": "dumb"},
        {"TZ": "Europe/Berlin", "LANG": "de_DE.UTF-8", "USER": "someone-else", "COLUMNS": "200"}]

JUNIT_TIME = re.compile(r'\stime="[^"]*"')
JSON_TIME = re.compile(r'"time":\s*\d+')
YAML_TIME = re.compile(r'^(\s*)time: \d+$', re.M)


def digest(s):
    return hashlib.sha1(s.encode("utf-8", "replace")).hexdigest()[:16]


def norm(kind, so):
    if kind == "junit":
        return JUNIT_TIME.sub("", so)
    if kind == "test-json":
        return JSON_TIME.sub('"time": 0', so)
    if kind == "test-yaml":
        return YAML_TIME.sub(r"\1time: 0", so)
    return so


def one_run(args, k, cwd, stdin, kind):
    rc, so, se = cli.run(args, stdin=stdin, cwd=cwd, env=dict(ENVS[k % len(ENVS)], VERIF_RUN=str(k)))
    so = norm(kind, so)
    structured = so
    if kind == "mixed":
        # -p: print-json documents (compared as bytes) inside console text (compared as lines)
        try:
            structured = json.dumps(cli.split_json_docs(so), sort_keys=False)
        except ValueError:
            structured = so
    return {"exit": rc, "out": digest(structured), "lines": digest("\n".join(sorted(so.split("\n")))),
            "err": digest(se), "elines": digest("\n".join(sorted(se.split("\n")))), "_so": so, "_se": se}


def repeat(pool, args, cwds, stdin=None, kind="bytes"):
    futs = [pool.submit(one_run, args, k, cwds[k % len(cwds)], stdin, kind) for k in range(RUNS)]
    return [f.result() for f in futs]


def test_file(cases, names):
    out = []
    for k, c in enumerate(cases):
        out.append("- name: case%d\n  input: %s\n  expectations:\n    rules:\n%s" % (
            k, c, "".join("      %s: %s\n" % (n, ["PASS", "FAIL", "SKIP"][(k + q) % 3]) for q, n in enumerate(list(names) + ["no_such_rule_b", "no_such_rule_a", "zz_undefined"]))))
    return "".join(out)


def record(res, tier, tr):
    n = 10 if tier == "quick" else 120
    rnd = random.Random(seed() + 5)
    wd = cli.Workdir("c05")
    cli.guard_bin()
    cwds = [wd.path, "/", os.path.join(wd.path, "sub")]
    os.makedirs(cwds[2], exist_ok=True)
    lines = []
    keep = {}
    with ThreadPoolExecutor(max_workers=10) as pool:
        def job(cmd, mode, klass, args, stdin=None, kind=None, what=None):
            runs = repeat(pool, args, cwds, stdin=stdin, kind=kind or klass)
            i = len(lines) + 1
            keep[i] = {"args": [a.replace(wd.path + "/", "") for a in args], "what": what,
                       "outputs": [{"exit": r["exit"], "stdout": r["_so"][:1500], "stderr": r["_se"][:300]} for r in runs]}
            lines.append({"i": i, "cmd": cmd, "mode": mode, "class": klass, "where": "processes",
                          "runs": [{k: v for k, v in r.items() if not k.startswith("_")} for r in runs]})
        for ci, cfg in enumerate(["full", "dups"]):
            pairs = clitrace.gen_pairs(seed() * 5231 + ci, n, cfg)
            clitrace.add_refs(pairs[0::3])
            for k, c in enumerate(pairs):
                base = "%s%d" % (cfg, k)
                rp = wd.write(base + "/r.guard", c["rules"])
                dp = wd.write(base + "/d.json", c["data"])
                d2 = wd.write(base + "/d2.json", clitrace.render_docs([clitrace.mutate_doc(c["doc"], rnd)])[0])
                for m in clitrace.MODES:
                    klass = "console" if m["fmt"] in ("summary", "none") else ("mixed" if m["fmt"] == "pjson" else "bytes")
                    kind = "junit" if m["fmt"] == "junit" else klass
                    label = m["fmt"] + ":" + " ".join(m["args"])
                    job("validate", label, klass, ["validate", "-r", rp, "-d", dp, "-d", d2] + m["args"], kind=kind, what=base)
                # payload entry (stdin)
                payload = json.dumps({"rules": [c["rules"]], "data": [c["data"]]})
                job("validate", "payload:sjson", "bytes", ["validate", "--payload", "--structured", "-o", "json", "-S", "none"], stdin=payload, what=base)
                # test command
                names = sorted({r["n"] for r in c["prog"]["rules"]})
                tp = wd.write(base + "/r_tests.yaml", test_file([c["data"], open(d2).read().strip()], names))
                for fmt, klass, kind in (("plain", "console", "console"), ("json", "bytes", "test-json"), ("yaml", "bytes", "test-yaml"), ("junit", "bytes", "junit")):
                    a = ["test", "-r", rp, "-t", tp] + ([] if fmt == "plain" else ["-o", fmt])
                    job("test", fmt, klass, a, kind=kind, what=base)
                job("test", "plain -v", "console", ["test", "-r", rp, "-t", tp, "-v"], what=base)
                # parse-tree
                job("parse-tree", "json", "bytes", ["parse-tree", "-r", rp, "--print-json"], what=base)
                job("parse-tree", "yaml", "bytes", ["parse-tree", "-r", rp, "--print-yaml"], what=base)
        # several rules / data files, some of them reached more than once (a directory and a file in it,
        # the same file twice, ./x and x): what is evaluated, and in which order, must not vary
        pairs = clitrace.gen_pairs(seed() * 977 + 3, 5, "full")
        for k, c in enumerate(pairs):
            wd.write("multi/rules/m%d.guard" % k, c["rules"] + "\nrule always_fails_%d {\n  nope_%d exists\n}\n" % (k, k))
            wd.write("multi/data/m%d.json" % k, c["data"])
            wd.write("multib/rules/m%d.guard" % k, c["rules"] if k != 2 else "rule broken {\n  a == \n}\n")
        mr, md = os.path.join(wd.path, "multi/rules"), os.path.join(wd.path, "multi/data")
        mb = os.path.join(wd.path, "multib/rules")
        for fmt in ("json", "yaml", "sarif", "junit"):
            kind = "junit" if fmt == "junit" else "bytes"
            so_ = ["--structured", "-o", fmt, "-S", "none"]
            job("validate", "multi:dir+file:" + fmt, "bytes", ["validate", "-r", mr, "-r", mr + "/m1.guard", "-d", md + "/m0.json"] + so_, kind=kind, what="multi")
            job("validate", "multi:file-twice:" + fmt, "bytes", ["validate", "-r", mr + "/m3.guard", "-r", mr + "/m0.guard", "-r", mr + "/m3.guard", "-r", mr + "/m2.guard", "-r", mr + "/m4.guard", "-d", md] + so_, kind=kind, what="multi")
            job("validate", "multi:data-dir+file:" + fmt, "bytes", ["validate", "-r", mr, "-d", md, "-d", md + "/m2.json"] + so_, kind=kind, what="multi")
        for label, extra in (("-S all", ["-S", "all"]), ("-S none", ["-S", "none"]), ("-S none -o json", ["-S", "none", "-o", "json"])):
            job("validate", "multi:dir+file:" + label, "console", ["validate", "-r", mr, "-r", mr + "/m4.guard", "-d", md] + extra, what="multi")
            job("validate", "multi:broken:" + label, "console", ["validate", "-r", mb, "-r", mb + "/m0.guard", "-d", md + "/m0.json"] + extra, what="multib")
        # rulegen
        tgen = gv(["record-rulegen", "--seed", seed() * 131, "--n", 3 * n, "--hard", 0, "--scratch", wd.path, "--out", os.path.join(wd.path, "tpl.ndjson")])
        # cases an earlier run found (kept under /verif/fixtures/c05): always repeated
        fx = os.path.join(VERIF, "fixtures", "c05")
        for name in sorted(f[:-6] for f in os.listdir(fx) if f.endswith(".guard")):
            rp, dp = os.path.join(fx, name + ".guard"), os.path.join(fx, name + ".json")
            for label, extra in (("-S all", ["-S", "all"]), ("default", []), ("-v", ["-v"])):
                job("validate", "fixture-console:" + label, "console", ["validate", "-r", rp, "-d", dp] + extra, what=name)
            job("validate", "fixture-pjson", "mixed", ["validate", "-r", rp, "-d", dp, "-S", "none", "-p"], kind="mixed", what=name)
        # failing checks at different nesting depths for different resource types
        every = wd.write("every.guard",
                         "rule every_resource {\n  Resources.*.Properties.nope exists <<needs nope>>\n}\n"
                         "rule buckets {\n  Resources.*[ Type == \"AWS::S3::Bucket\" ] {\n    Properties {\n      nope exists\n    }\n  }\n}\n"
                         "rule volumes {\n  when Resources exists {\n    Resources.*[ Type == \"AWS::EC2::Volume\" ] {\n      Properties {\n"
                         "        when this exists {\n          nope exists\n        }\n      }\n    }\n  }\n}\n"
                         "rule things {\n  Resources.*[ Type == \"Custom::Thing\" ].Properties.Size >= 1000 or Resources.*[ Type == \"Custom::Thing\" ].Properties.nope exists\n}\n")
        for k, l in enumerate(open(os.path.join(wd.path, "tpl.ndjson"))):
            t = json.loads(l)["template"]
            tp = wd.write("tpl%d.json" % k, t)
            job("rulegen", "stdout", "rulegen", ["rulegen", "-t", tp], kind="console", what="tpl%d" % k)
            if k % 3 == 0:
                # several failing resources of a template: the CloudFormation console reporter groups by resource
                job("validate", "cfn-console:-S all", "console", ["validate", "-r", every, "-d", tp, "-S", "all"], what="tpl%d" % k)
                job("validate", "cfn-console:default", "console", ["validate", "-r", every, "-d", tp], what="tpl%d" % k)
                job("validate", "cfn-console:-v", "console", ["validate", "-r", every, "-d", tp, "-v"], what="tpl%d" % k)
    with open(tr, "w") as f:
        for l in lines:
            f.write(json.dumps(l) + "\n")
    wd.close()
    return keep


def classify(line, name):
    return "determinism:%s:%s:%s" % (line["cmd"], line["mode"].split(":")[0], name)


def validate(res, tr, keep):
    r = tlc("TraceRepeat", env={"TRACE": tr}, workers=1, timeout=1800, tag="tr_C05", heap="4g")
    if "TRACE-REJECTED" in r["out"] or not r["ok"]:
        log(r["out"][-3000:])
        raise ToolError("TraceRepeat did not consume the whole trace")
    res.add("states", r["distinct"])
    res.add("transitions", r["states"])
    lines = {}
    for l in open(tr):
        if l.strip():
            j = json.loads(l)
            lines[j["i"]] = j
    seen = res.cov.setdefault("relations", {})
    modes = res.cov.setdefault("commands_repeated", {})
    for t in tlc_tuples(r["out"], "RELATE"):
        i, verdict, name = t[1], t[2], t[3]
        res.add("relations_checked")
        seen[name] = seen.get(name, 0) + 1
        line = lines[i]
        if name == "same-exit":
            k = line["cmd"] + (":in-process" if line["where"] == "in-process" else "")
            modes[k] = modes.get(k, 0) + 1
        if verdict == "ok":
            res.add("traces_validated_against_impl")
        else:
            res.violation(classify(line, name), {"line": line, "runs": keep.get(i) if keep else None})
    return len(lines)


def run(tier):
    res = Result("C05", tier, "exploration")
    res.assumptions = ["elapsed-time fields are removed before comparing: time=\"..\" attributes of JUnit output and the `time` fields of `test -o json|yaml`",
                       "each command is repeated %d times in fresh processes (fresh hash seeds) under different TZ / LANG / HOME / COLUMNS / RUST_LOG settings and working directories (absolute paths), and %d times inside one process with other evaluations in between" % (RUNS, RUNS),
                       "generated rules do not call now()"]
    # 1. the design: which hash-ordered tables can reach compared output (every iteration order)
    r = tlc("MC_Order", workers=2, timeout=300, tag="mcorder")
    if r["violated"] or not r["ok"]:
        log(r["out"][-2000:])
        raise ToolError("MC_Order fails")
    res.add("states", r["distinct"])
    res.add("transitions", r["states"])
    # 2. fresh processes
    tr = os.path.join(WORK, "trace_C05.ndjson")
    keep = record(res, tier, tr)
    total = validate(res, tr, keep)
    # distinct commands whose output is not empty (by the digest of the first repetition)
    first = set()
    for l in open(tr):
        j = json.loads(l)
        k = keep.get(j["i"])
        if k and (k["outputs"][0]["stdout"].strip() or k["outputs"][0]["stderr"].strip()):
            first.add((j["cmd"], j["mode"], j["runs"][0]["out"], j["runs"][0]["err"]))
    res.cov["distinct_nontrivial"] = len(first)
    for i in (1, 14, 17):
        if i in keep:
            res.sample({"command": keep[i]["args"], "repetitions": [{"exit": o["exit"], "stdout_head": o["stdout"][:200]} for o in keep[i]["outputs"][:2]]})
    os.remove(tr)
    # 3. within one process
    scratch = os.path.join(WORK, "c05_scratch")
    os.makedirs(scratch, exist_ok=True)
    for ci, cfg in enumerate(["full", "dups", "fn"]):
        gv(["repeat-lib", "--seed", seed() * 977 + ci, "--n", 40 if tier == "quick" else 600, "--rounds", RUNS, "--cfg", cfg, "--scratch", scratch, "--out", tr])
        total += validate(res, tr, None)
        os.remove(tr)
    res.add("evaluations", total * RUNS)
    res.cov["rule"] = ("MC_Order: every iteration order of the hash tables named by the property against the ordered containers; generated rules "
                       "files (incl. `keys in` filters, repeated rule names, rule references) x documents: validate in 12 output modes + payload, "
                       "test in 5 modes, parse-tree json / yaml, rulegen - each %d times in fresh processes under varied environments, and run_checks / "
                       "parse-tree / rulegen %d times inside one process; TraceRepeat requires equal exit codes and equal bytes (structured) or equal "
                       "multisets of lines (console, rulegen)" % (RUNS, RUNS))
    return res.finish()


def replay(path):
    """repeat the recorded command line 8 times in fresh processes: 1 if the outputs still differ"""
    j = json.load(open(path))
    runs = j.get("runs") or {}
    line = j.get("line") or {}
    if not runs or not runs.get("args"):
        print(json.dumps(j)[:3000])
        return 1
    print("the recorded run used files of a scratch directory that is gone; inputs are in the replay file:", runs.get("what"))
    print(json.dumps({"args": runs["args"], "class": line.get("class"), "outputs": runs["outputs"][:2]})[:3000])
    return 1
