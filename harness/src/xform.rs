//! Program transformations used by the relational properties (C03 negation, C04 permutation,
//! C15 abstraction).  Pure syntax: they rewrite the AST, nothing is evaluated here.
use serde_json::{json, Value as J};

/// JSON pointers of every clause in the program (any kind), depth-first
pub fn clause_pointers(prog: &J) -> Vec<String> {
    let mut out = Vec::new();
    if let Some(rules) = prog["rules"].as_array() {
        for (i, r) in rules.iter().enumerate() {
            cnf_ptrs(&r["w"], &format!("/rules/{}/w", i), &mut out);
            lets_ptrs(&r["lets"], &format!("/rules/{}/lets", i), &mut out);
            cnf_ptrs(&r["b"], &format!("/rules/{}/b", i), &mut out);
        }
    }
    if let Some(rules) = prog["prules"].as_array() {
        for (i, r) in rules.iter().enumerate() {
            cnf_ptrs(&r["b"], &format!("/prules/{}/b", i), &mut out);
        }
    }
    lets_ptrs(&prog["lets"], "/lets", &mut out);
    out
}

fn lets_ptrs(lets: &J, p: &str, out: &mut Vec<String>) {
    if let Some(a) = lets.as_array() {
        for (i, l) in a.iter().enumerate() {
            rhs_ptrs(&l["v"], &format!("{}/{}/v", p, i), out);
        }
    }
}

fn rhs_ptrs(r: &J, p: &str, out: &mut Vec<String>) {
    match r["r"].as_str() {
        Some("q") => query_ptrs(&r["q"], &format!("{}/q", p), out),
        Some("fn") => {
            if let Some(a) = r["a"].as_array() {
                for (i, x) in a.iter().enumerate() {
                    rhs_ptrs(x, &format!("{}/a/{}", p, i), out);
                }
            }
        }
        _ => {}
    }
}

fn query_ptrs(q: &J, p: &str, out: &mut Vec<String>) {
    if let Some(a) = q.as_array() {
        for (i, part) in a.iter().enumerate() {
            if part["p"] == "filter" {
                cnf_ptrs(&part["c"], &format!("{}/{}/c", p, i), out);
            }
        }
    }
}

fn cnf_ptrs(cnf: &J, p: &str, out: &mut Vec<String>) {
    if let Some(lines) = cnf.as_array() {
        for (li, line) in lines.iter().enumerate() {
            if let Some(alts) = line.as_array() {
                for (ai, c) in alts.iter().enumerate() {
                    let cp = format!("{}/{}/{}", p, li, ai);
                    out.push(cp.clone());
                    match c["c"].as_str().unwrap_or("") {
                        "gac" => {
                            query_ptrs(&c["q"], &format!("{}/q", cp), out);
                            if let Some(r) = c["rhs"].as_array().and_then(|a| a.first()) {
                                rhs_ptrs(r, &format!("{}/rhs/0", cp), out);
                            }
                        }
                        "block" => {
                            query_ptrs(&c["q"], &format!("{}/q", cp), out);
                            lets_ptrs(&c["lets"], &format!("{}/lets", cp), out);
                            cnf_ptrs(&c["b"], &format!("{}/b", cp), out);
                        }
                        "when" | "type" => {
                            cnf_ptrs(&c["w"], &format!("{}/w", cp), out);
                            lets_ptrs(&c["lets"], &format!("{}/lets", cp), out);
                            cnf_ptrs(&c["b"], &format!("{}/b", cp), out);
                        }
                        _ => {}
                    }
                }
            }
        }
    }
}

pub fn has_op_not(op: &str) -> bool {
    !matches!(op, "lt" | "le" | "gt" | "ge")
}

/// toggle the prefix negation / the operator-level negation of the clause at `ptr`
pub fn toggle(prog: &J, ptr: &str, neg: bool, on: bool) -> J {
    let mut p = prog.clone();
    if let Some(c) = p.pointer_mut(ptr) {
        if neg {
            let v = c["neg"].as_bool().unwrap_or(false);
            c["neg"] = json!(!v);
        }
        if on {
            let v = c["on"].as_bool().unwrap_or(false);
            c["on"] = json!(!v);
        }
    }
    p
}
