//! Program transformations used by the relational properties (C03 negation, C04 permutation,
//! C15 abstraction).  Pure syntax: they rewrite the AST, nothing is evaluated here.
use serde_json::{json, Value as J};

/// JSON pointers of every clause in the program (any kind), depth-first
pub fn clause_pointers(prog: &J) -> Vec<String> {
    let mut out = Vec::new();
    if let Some(rules) = prog["rules"].as_array() {
        for (i, r) in rules.iter().enumerate() {
            cnf_ptrs(&r["w"], &format!("/rules/{}/w", i), &mut out);
            lets_ptrs(&r["lets"], &format!("/rules/{}/lets", i), &mut out);
            cnf_ptrs(&r["b"], &format!("/rules/{}/b", i), &mut out);
        }
    }
    if let Some(rules) = prog["prules"].as_array() {
        for (i, r) in rules.iter().enumerate() {
            cnf_ptrs(&r["b"], &format!("/prules/{}/b", i), &mut out);
        }
    }
    lets_ptrs(&prog["lets"], "/lets", &mut out);
    out
}

fn lets_ptrs(lets: &J, p: &str, out: &mut Vec<String>) {
    if let Some(a) = lets.as_array() {
        for (i, l) in a.iter().enumerate() {
            rhs_ptrs(&l["v"], &format!("{}/{}/v", p, i), out);
        }
    }
}

fn rhs_ptrs(r: &J, p: &str, out: &mut Vec<String>) {
    match r["r"].as_str() {
        Some("q") => query_ptrs(&r["q"], &format!("{}/q", p), out),
        Some("fn") => {
            if let Some(a) = r["a"].as_array() {
                for (i, x) in a.iter().enumerate() {
                    rhs_ptrs(x, &format!("{}/a/{}", p, i), out);
                }
            }
        }
        _ => {}
    }
}

fn query_ptrs(q: &J, p: &str, out: &mut Vec<String>) {
    if let Some(a) = q.as_array() {
        for (i, part) in a.iter().enumerate() {
            if part["p"] == "filter" {
                cnf_ptrs(&part["c"], &format!("{}/{}/c", p, i), out);
            }
        }
    }
}

fn cnf_ptrs(cnf: &J, p: &str, out: &mut Vec<String>) {
    if let Some(lines) = cnf.as_array() {
        for (li, line) in lines.iter().enumerate() {
            if let Some(alts) = line.as_array() {
                for (ai, c) in alts.iter().enumerate() {
                    let cp = format!("{}/{}/{}", p, li, ai);
                    out.push(cp.clone());
                    match c["c"].as_str().unwrap_or("") {
                        "gac" => {
                            query_ptrs(&c["q"], &format!("{}/q", cp), out);
                            if let Some(r) = c["rhs"].as_array().and_then(|a| a.first()) {
                                rhs_ptrs(r, &format!("{}/rhs/0", cp), out);
                            }
                        }
                        "block" => {
                            query_ptrs(&c["q"], &format!("{}/q", cp), out);
                            lets_ptrs(&c["lets"], &format!("{}/lets", cp), out);
                            cnf_ptrs(&c["b"], &format!("{}/b", cp), out);
                        }
                        "when" | "type" => {
                            cnf_ptrs(&c["w"], &format!("{}/w", cp), out);
                            lets_ptrs(&c["lets"], &format!("{}/lets", cp), out);
                            cnf_ptrs(&c["b"], &format!("{}/b", cp), out);
                        }
                        _ => {}
                    }
                }
            }
        }
    }
}

pub fn has_op_not(op: &str) -> bool {
    !matches!(op, "lt" | "le" | "gt" | "ge")
}

/// toggle the prefix negation / the operator-level negation of the clause at `ptr`
pub fn toggle(prog: &J, ptr: &str, neg: bool, on: bool) -> J {
    let mut p = prog.clone();
    if let Some(c) = p.pointer_mut(ptr) {
        if neg {
            let v = c["neg"].as_bool().unwrap_or(false);
            c["neg"] = json!(!v);
        }
        if on {
            let v = c["on"].as_bool().unwrap_or(false);
            c["on"] = json!(!v);
        }
    }
    p
}

// ------------------------------------------------------------------ C04: order / repetition

use crate::rng::Rng;

/// JSON pointers of every CNF (sequence of lines) in the program
pub fn cnf_pointers(prog: &J) -> Vec<String> {
    let mut out = Vec::new();
    if let Some(rules) = prog["rules"].as_array() {
        for (i, r) in rules.iter().enumerate() {
            if r["w"].as_array().map(|a| !a.is_empty()).unwrap_or(false) {
                out.push(format!("/rules/{}/w", i));
            }
            out.push(format!("/rules/{}/b", i));
        }
    }
    for cp in clause_pointers(prog) {
        let c = prog.pointer(&cp).unwrap();
        match c["c"].as_str().unwrap_or("") {
            "block" => out.push(format!("{}/b", cp)),
            "when" | "type" => {
                if c["w"].as_array().map(|a| !a.is_empty()).unwrap_or(false) {
                    out.push(format!("{}/w", cp));
                }
                out.push(format!("{}/b", cp));
            }
            "gac" => {
                if let Some(q) = c["q"].as_array() {
                    for (j, part) in q.iter().enumerate() {
                        if part["p"] == "filter" {
                            out.push(format!("{}/q/{}/c", cp, j));
                        }
                    }
                }
            }
            _ => {}
        }
    }
    out.sort();
    out.dedup();
    out
}

fn permute(v: &mut Vec<J>, r: &mut Rng) -> bool {
    if v.len() < 2 {
        return false;
    }
    let before = v.clone();
    for _ in 0..4 {
        r.shuffle(v);
        if *v != before {
            return true;
        }
    }
    // all elements equal or unlucky: rotate
    v.rotate_left(1);
    *v != before
}

/// one order/repetition variant of `prog`: (kind, program) or None if not applicable
pub fn perm_variant(prog: &J, kind: &str, r: &mut Rng) -> Option<J> {
    let mut p = prog.clone();
    match kind {
        "PL" => {
            // permute the lines (conjuncts) of one CNF that has at least two lines
            let cands: Vec<String> = cnf_pointers(&p)
                .into_iter()
                .filter(|cp| p.pointer(cp).and_then(|c| c.as_array()).map(|a| a.len() >= 2).unwrap_or(false))
                .collect();
            if cands.is_empty() {
                return None;
            }
            let cp = cands[r.below(cands.len())].clone();
            let a = p.pointer_mut(&cp)?.as_array_mut()?;
            if !permute(a, r) {
                return None;
            }
        }
        "PA" => {
            // permute the alternatives of one line that has at least two
            let mut cands = Vec::new();
            for cp in cnf_pointers(&p) {
                if let Some(lines) = p.pointer(&cp).and_then(|c| c.as_array()) {
                    for (li, l) in lines.iter().enumerate() {
                        if l.as_array().map(|a| a.len() >= 2).unwrap_or(false) {
                            cands.push(format!("{}/{}", cp, li));
                        }
                    }
                }
            }
            if cands.is_empty() {
                return None;
            }
            let lp = cands[r.below(cands.len())].clone();
            let a = p.pointer_mut(&lp)?.as_array_mut()?;
            if !permute(a, r) {
                return None;
            }
        }
        "DC" => {
            // repeat a clause: duplicate one line of one CNF, or one alternative of a line
            let cands = cnf_pointers(&p);
            if cands.is_empty() {
                return None;
            }
            let cp = cands[r.below(cands.len())].clone();
            let a = p.pointer_mut(&cp)?.as_array_mut()?;
            if a.is_empty() {
                return None;
            }
            let i = r.below(a.len());
            if r.chance(1, 2) {
                let line = a[i].clone();
                let at = r.below(a.len() + 1);
                a.insert(at, line);
            } else {
                let alts = a[i].as_array_mut()?;
                let j = r.below(alts.len());
                let c = alts[j].clone();
                let at = r.below(alts.len() + 1);
                alts.insert(at, c);
            }
        }
        "PR" => {
            let a = p["rules"].as_array_mut()?;
            if !permute(a, r) {
                return None;
            }
        }
        "DR" => {
            // duplicate a rule under a new name (at a random position)
            let a = p["rules"].as_array_mut()?;
            let i = r.below(a.len());
            let mut d = a[i].clone();
            d["n"] = json!(format!("{}dup", d["n"].as_str().unwrap()));
            let at = r.below(a.len() + 1);
            a.insert(at, d);
        }
        _ => return None,
    }
    Some(p)
}

// ------------------------------------------------------------------ C15: abstraction

/// is the CNF at `cnf_ptr` evaluated with the document root as its context, and which rule
/// (index) does it belong to?  Only clauses directly in a rule body or in (nested) when blocks
/// of a rule body qualify: blocks, filters and type blocks change the context.
fn root_context_clause_pointers(prog: &J) -> Vec<(usize, String)> {
    fn walk(cnf: &J, p: &str, ri: usize, out: &mut Vec<(usize, String)>) {
        if let Some(lines) = cnf.as_array() {
            for (li, line) in lines.iter().enumerate() {
                for (ai, c) in line.as_array().unwrap().iter().enumerate() {
                    let cp = format!("{}/{}/{}", p, li, ai);
                    if c["c"] == "gac" {
                        out.push((ri, cp.clone()));
                    }
                    if c["c"] == "when" {
                        walk(&c["w"], &format!("{}/w", cp), ri, out);
                        walk(&c["b"], &format!("{}/b", cp), ri, out);
                    }
                }
            }
        }
    }
    let mut out = Vec::new();
    if let Some(rules) = prog["rules"].as_array() {
        for (i, r) in rules.iter().enumerate() {
            walk(&r["w"], &format!("/rules/{}/w", i), i, &mut out);
            walk(&r["b"], &format!("/rules/{}/b", i), i, &mut out);
        }
    }
    out
}

fn uses_var(j: &J, name: &str) -> bool {
    match j {
        J::Object(m) => {
            if m.get("p").map(|p| p == "var" || p == "vkey").unwrap_or(false) && m.get("n").map(|n| n == name).unwrap_or(false) {
                return true;
            }
            m.values().any(|v| uses_var(v, name))
        }
        J::Array(a) => a.iter().any(|v| uses_var(v, name)),
        _ => false,
    }
}

fn query_is_plain(q: &J) -> bool {
    // no variable head / interpolation (their meaning depends on the scope they are in)
    q.as_array().map(|a| a.iter().all(|p| p["p"] != "var" && p["p"] != "vkey")).unwrap_or(false)
}

/// one abstraction variant of `prog` (C15)
pub fn abs_variant(prog: &J, kind: &str, r: &mut Rng) -> Option<J> {
    let mut p = prog.clone();
    let fresh = "zv";
    if uses_var(&p, fresh) {
        return None;
    }
    match kind {
        // bind the literal right-hand side of a clause to a variable (file or rule scope)
        "AL" | "AQ" | "AR" => {
            let cands: Vec<(usize, String)> = root_context_clause_pointers(&p)
                .into_iter()
                .filter(|(_, cp)| {
                    let c = p.pointer(cp).unwrap();
                    match kind {
                        "AL" => c["rhs"].as_array().and_then(|a| a.first()).map(|x| x["r"] == "val").unwrap_or(false),
                        "AR" => c["rhs"].as_array().and_then(|a| a.first()).map(|x| x["r"] == "q" && query_is_plain(&x["q"])).unwrap_or(false),
                        _ => {
                            // the documented exception: emptiness test on a bare variable
                            query_is_plain(&c["q"]) && !(c["op"] == "empty")
                        }
                    }
                })
                .collect();
            if cands.is_empty() {
                return None;
            }
            let (ri, cp) = cands[r.below(cands.len())].clone();
            let at_file = r.chance(1, 2);
            let def;
            {
                let c = p.pointer_mut(&cp)?;
                match kind {
                    "AL" | "AR" => {
                        def = c["rhs"][0].clone();
                        c["rhs"] = json!([{"r":"q","q":[{"p":"var","n":fresh}],"all":true}]);
                    }
                    _ => {
                        // abstract a prefix of the left-hand query (never cutting before a filter's
                        // own context): let zv = <prefix> ; %zv<rest>
                        let q = c["q"].as_array()?.clone();
                        let cut = 1 + r.below(q.len());
                        let prefix: Vec<J> = q[..cut].to_vec();
                        let rest: Vec<J> = q[cut..].to_vec();
                        if prefix.iter().any(|x| x["p"] == "filter" || x["p"] == "keys") && !rest.is_empty() {
                            // continuing below a filtered prefix through a variable is still the same query
                        }
                        if let Some(first) = rest.first() {
                            // `%v[*]`: the index directly after a variable is swallowed by the parser's
                            // implicit [*]; `%v[ filter ]` on a map is not the same query position
                            if first["p"] == "idx" || first["p"] == "filter" || first["p"] == "keys" {
                                return None;
                            }
                        }
                        def = json!({"r":"q","q":prefix,"all":true});
                        let mut nq = vec![json!({"p":"var","n":fresh})];
                        nq.extend(rest);
                        c["q"] = J::Array(nq);
                    }
                }
            }
            let l = json!({"n":fresh,"v":def});
            if at_file {
                p["lets"].as_array_mut()?.push(l);
            } else {
                p["rules"][ri]["lets"].as_array_mut()?.push(l);
            }
        }
        // an unused variable (whose evaluation would even be an error) never matters
        "UN" => {
            let l = match r.below(5) {
                0 => json!({"n":fresh,"v":{"r":"val","v":{"t":"int","v":7}}}),
                // a function call that cannot be evaluated: lazily bound, never used, never matters
                3 => json!({"n":fresh,"v":{"r":"fn","f":"parse_int","a":[{"r":"val","v":{"t":"str","v":[97,98,99]}}]}}),
                4 => json!({"n":fresh,"v":{"r":"fn","f":"parse_boolean","a":[{"r":"q","q":[{"p":"this"}],"all":true}]}}),
                1 => json!({"n":fresh,"v":{"r":"q","q":[{"p":"key","k":[122,122]},{"p":"idx"}],"all":true}}),
                _ => json!({"n":fresh,"v":{"r":"q","q":[{"p":"var","n":"undefined_var"}],"all":true}}),
            };
            if r.chance(1, 2) {
                p["lets"].as_array_mut()?.push(l);
            } else {
                let n = p["rules"].as_array()?.len();
                p["rules"][r.below(n)]["lets"].as_array_mut()?.push(l);
            }
        }
        // shadowing: an outer definition of a name that a rule defines itself is never seen there
        "SH" => {
            let rules = p["rules"].as_array()?;
            let mut cands = Vec::new();
            for r0 in rules {
                for l in r0["lets"].as_array()? {
                    cands.push(l["n"].as_str()?.to_string());
                }
            }
            cands.retain(|n| !p["lets"].as_array().unwrap().iter().any(|l| l["n"] == n.as_str()));
            // the outer definition must not be visible to any other rule
            cands.retain(|n| {
                rules.iter().all(|r0| {
                    let defines = r0["lets"].as_array().unwrap().iter().any(|l| l["n"] == n.as_str());
                    defines || !uses_var(r0, n)
                })
            });
            if cands.is_empty() {
                return None;
            }
            let n = cands[r.below(cands.len())].clone();
            p["lets"].as_array_mut()?.push(json!({"n":n,"v":{"r":"val","v":{"t":"str","v":[111,117,116,101,114]}}}));
        }
        // a clause turned into a call of a parameterised rule whose body is that clause
        "IN" => {
            let cands: Vec<(usize, String)> = root_context_clause_pointers(&p)
                .into_iter()
                .filter(|(_, cp)| {
                    let c = p.pointer(cp).unwrap();
                    // only rule-body positions (a call is not allowed in every when-condition form)
                    query_is_plain(&c["q"]) && !(c["op"] == "empty") && !cp.contains("/w/")
                })
                .collect();
            if cands.is_empty() {
                return None;
            }
            let (_ri, cp) = cands[r.below(cands.len())].clone();
            let c = p.pointer(&cp)?.clone();
            // the parameter's name: a fresh one, or - half of the time - the name of a file-level
            // variable the clause does not mention (the parameter hides it inside the rule)
            let mut pname = "zp".to_string();
            if r.chance(1, 2) {
                let text = c.to_string();
                let free: Vec<String> = p["lets"].as_array().map(|a| a.as_slice()).unwrap_or(&[]).iter()
                    .filter_map(|l| l["n"].as_str().map(|s| s.to_string()))
                    .filter(|n| !text.contains(&format!("\"n\":\"{}\"", n)))
                    .collect();
                if !free.is_empty() {
                    pname = free[r.below(free.len())].clone();
                }
            }
            let mut body = c.clone();
            body["q"] = json!([{"p":"var","n":pname}]);
            let arg = json!({"r":"q","q":c["q"],"all":true});
            *p.pointer_mut(&cp)? = json!({"c":"pcall","n":"zf","a":[arg],"neg":false});
            p["prules"].as_array_mut()?.push(json!({"n":"zf","ps":[pname],"lets":[],"b":[[body]]}));
        }
        // the literal right-hand side of a clause handed to a parameterised rule as its argument:
        // `q op <literal>`  ->  zf(<literal>)  with  rule zf(zp) { q op %zp }
        "IL" => {
            let cands: Vec<(usize, String)> = root_context_clause_pointers(&p)
                .into_iter()
                .filter(|(_, cp)| {
                    let c = p.pointer(cp).unwrap();
                    !cp.contains("/w/")
                        && c["rhs"].as_array().and_then(|a| a.first()).map(|x| x["r"] == "val" && !has_float(&x["v"])).unwrap_or(false)
                })
                .collect();
            if cands.is_empty() {
                return None;
            }
            let (_ri, cp) = cands[r.below(cands.len())].clone();
            let c = p.pointer(&cp)?.clone();
            let mut body = c.clone();
            body["rhs"] = json!([{"r":"q","q":[{"p":"var","n":"zp"}],"all":true}]);
            let arg = c["rhs"][0].clone();
            *p.pointer_mut(&cp)? = json!({"c":"pcall","n":"zf","a":[arg],"neg":false});
            p["prules"].as_array_mut()?.push(json!({"n":"zf","ps":["zp"],"lets":[],"b":[[body]]}));
        }
        _ => return None,
    }
    Some(p)
}

/// negative float literals cannot be written as call arguments
fn has_float(v: &J) -> bool {
    match v["t"].as_str() {
        Some("flt") => true,
        Some("list") | Some("map") => v["v"].as_array().map(|a| a.iter().any(has_float)).unwrap_or(false),
        _ => false,
    }
}

// ---------------------------------------------------------------------------------------------
// C14 helpers

/// can the body of this rule be written as bare clauses (the implicit default rule)?  No rule
/// conditions, no rule-level assignments; every line consists of type blocks only or of
/// value / block / call clauses only; a when block stands alone on its line.
pub fn bare_ok(rule: &J) -> bool {
    if rule["w"].as_array().map(|a| !a.is_empty()).unwrap_or(false) {
        return false;
    }
    if rule["lets"].as_array().map(|a| !a.is_empty()).unwrap_or(false) {
        return false;
    }
    let lines = match rule["b"].as_array() {
        Some(l) if !l.is_empty() => l,
        _ => return false,
    };
    for line in lines {
        let alts = line.as_array().unwrap();
        let kinds: Vec<&str> = alts.iter().map(|c| c["c"].as_str().unwrap()).collect();
        let all_type = kinds.iter().all(|k| *k == "type");
        let all_plain = kinds.iter().all(|k| matches!(*k, "gac" | "block" | "pcall"));
        let lone_when = kinds.len() == 1 && kinds[0] == "when";
        if !(all_type || all_plain || lone_when) {
            return false;
        }
    }
    true
}

fn rename_refs(j: &mut J, old: &str, new: &str) {
    match j {
        J::Object(m) => {
            if m.get("c").and_then(|c| c.as_str()) == Some("named") && m.get("n").and_then(|c| c.as_str()) == Some(old) {
                m.insert("n".to_string(), json!(new));
            }
            for (_, v) in m.iter_mut() {
                rename_refs(v, old, new);
            }
        }
        J::Array(a) => {
            for v in a.iter_mut() {
                rename_refs(v, old, new);
            }
        }
        _ => {}
    }
}

/// rename every rule called `old` and every reference to it
pub fn rename_rule(prog: &mut J, old: &str, new: &str) {
    for r in prog["rules"].as_array_mut().unwrap() {
        if r["n"].as_str() == Some(old) {
            r["n"] = json!(new);
        }
    }
    rename_refs(prog, old, new);
}

/// is there a type block without conditions anywhere in the program?
pub fn has_plain_type_block(j: &J) -> bool {
    match j {
        J::Object(m) => {
            if m.get("c").and_then(|c| c.as_str()) == Some("type")
                && m.get("w").and_then(|w| w.as_array()).map(|a| a.is_empty()).unwrap_or(true)
            {
                return true;
            }
            m.values().any(has_plain_type_block)
        }
        J::Array(a) => a.iter().any(has_plain_type_block),
        _ => false,
    }
}

/// FNV-1a digest of a text, as 16 hex digits (equality of long texts inside TLC)
pub fn digest(s: &str) -> String {
    let mut h: u64 = 0xcbf2_9ce4_8422_2325;
    for b in s.as_bytes() {
        h ^= *b as u64;
        h = h.wrapping_mul(0x0000_0100_0000_01b3);
    }
    format!("{:016x}", h)
}

fn cps(s: &str) -> J {
    json!(s.chars().map(|c| c as u32).collect::<Vec<u32>>())
}

/// every type block without conditions rewritten as the block clause the documentation gives as
/// its meaning: `AWS::X::Y { .. }`  ==>  `Resources.*[ Type == "AWS::X::Y" ] { .. }`
pub fn type_to_query(j: &J) -> J {
    match j {
        J::Object(m) => {
            if m.get("c").and_then(|c| c.as_str()) == Some("type")
                && m.get("w").and_then(|w| w.as_array()).map(|a| a.is_empty()).unwrap_or(true)
            {
                let tn = m["tn"].as_str().unwrap();
                let filter = json!([[{"c":"gac","q":[{"p":"key","k":cps("Type")}],"all":true,"neg":false,
                                      "op":"eq","on":false,"rhs":[{"r":"val","v":{"t":"str","v":cps(tn)}}]}]]);
                return json!({"c":"block",
                              "q":[{"p":"key","k":cps("Resources")},{"p":"all"},{"p":"filter","c":filter}],
                              "all":true,"ne":false,
                              "lets": type_to_query(&m["lets"]), "b": type_to_query(&m["b"])});
            }
            J::Object(m.iter().map(|(k, v)| (k.clone(), type_to_query(v))).collect())
        }
        J::Array(a) => J::Array(a.iter().map(type_to_query).collect()),
        other => other.clone(),
    }
}

/// is the rule `name` referred to by name anywhere in the program?
pub fn is_referenced(j: &J, name: &str) -> bool {
    match j {
        J::Object(m) => {
            if m.get("c").and_then(|c| c.as_str()) == Some("named") && m.get("n").and_then(|c| c.as_str()) == Some(name) {
                return true;
            }
            m.values().any(|v| is_referenced(v, name))
        }
        J::Array(a) => a.iter().any(|v| is_referenced(v, name)),
        _ => false,
    }
}
