//! C19: driving `cfn-guard rulegen`.
//! Templates are generated as abstract documents (the exchange format of val.rs), written as
//! JSON, given to the real `rulegen` command in-process; what it prints is parsed by the real
//! parser (`parse-tree --print-json`) and read back into the structure GuardRulegen talks about:
//!   [{type, rule, rulecp, var, varcp, props: [{p, op, vals}]}]
//! and evaluated by run_checks against the source template and against one-value mutations of it.
use crate::rng::Rng;
use crate::val::*;
use crate::{exec, val};
use serde_json::{json, Value as J};
use std::panic::{catch_unwind, AssertUnwindSafe};

const TYPES: [&str; 9] = ["AWS::S3::Bucket", "AWS::EC2::Volume", "Custom::Thing", "AWS::IAM::Role", "AWS::EC2::VPC", "AWS::SNS::Topic", "AWS::SecretsManager::Secret", "AWS::KMS::Key", "AWS::Kinesis::Stream"];
const PROPS: [&str; 6] = ["Name", "Size", "Enabled", "Tags", "Config", "p_1"];
const ODD_PROPS: [&str; 4] = ["my-prop", "with space", "dot.ted", "123"];
const STRS: [&str; 12] = ["a", "us-west-2b", "x y", "10", "true", "", "héllo", "it's", "a/b:c", "null", "AWS::S3::Bucket", "[1]"];
const PAD_STRS: [&str; 3] = [" padded ", "tab\t", " lead"];
const HARD_STRS: [&str; 3] = ["quo\"te", "back\\slash", "${x}"];

pub struct TGen<'a> {
    pub r: &'a mut Rng,
    /// include strings with leading / trailing blanks, quotes, backslashes, odd property names
    pub hard: bool,
}

impl<'a> TGen<'a> {
    fn scalar(&mut self) -> J {
        match self.r.below(10) {
            0..=3 => {
                if self.hard && self.r.chance(1, 6) {
                    vstr(*self.r.pick(&PAD_STRS[..]))
                } else if self.hard && self.r.chance(1, 12) {
                    vstr(*self.r.pick(&HARD_STRS[..]))
                } else {
                    vstr(*self.r.pick(&STRS[..]))
                }
            }
            4..=6 => vint(*self.r.pick(&[0i64, 1, 5, 10, 500, -1])),
            7..=8 => vbool(self.r.chance(1, 2)),
            _ => {
                if self.r.chance(1, 2) {
                    vflt(*self.r.pick(&[500i64, 1500, 2000, -250]))
                } else {
                    vnull()
                }
            }
        }
    }

    fn nested(&mut self, depth: usize) -> J {
        if depth == 0 || self.r.chance(1, 3) {
            return self.scalar();
        }
        if self.r.chance(1, 2) {
            let n = self.r.below(3);
            vlist((0..n).map(|_| self.nested(depth - 1)).collect())
        } else {
            let n = self.r.below(3);
            let keys = ["k", "v", "Key", "Value"];
            let mut kv: Vec<(&str, J)> = Vec::new();
            for i in 0..n {
                kv.push((keys[i], self.nested(depth - 1)));
            }
            vmap(kv)
        }
    }

    fn value(&mut self) -> J {
        if self.r.chance(3, 4) {
            self.scalar()
        } else {
            self.nested(2)
        }
    }

    /// 1..5 resources over 1..3 types; values repeated and distinct across the resources of a type.
    /// `uniform`: every resource of a type has the same property names.
    pub fn template(&mut self, uniform: bool) -> J {
        // mostly 1..5 resources; every fifth template has 6..9 (IN lists with many values)
        let many = self.r.chance(1, 5);
        let nres = if many { 6 + self.r.below(4) } else { 1 + self.r.below(5) };
        let ntypes = 1 + self.r.below(3);
        let mut types: Vec<&str> = TYPES.to_vec();
        self.r.shuffle(&mut types);
        types.truncate(ntypes);
        // per type: property names and a small pool of values per property
        let mut shape: Vec<(Vec<&str>, Vec<Vec<J>>)> = Vec::new();
        for _ in 0..ntypes {
            let mut ps: Vec<&str> = PROPS.to_vec();
            self.r.shuffle(&mut ps);
            ps.truncate(1 + self.r.below(3));
            if self.hard && self.r.chance(1, 12) {
                ps.push(*self.r.pick(&ODD_PROPS[..]));
            }
            let pool_max = if many { 8 } else { 3 };
            let pools = ps.iter().map(|_| (0..1 + self.r.below(pool_max)).map(|_| self.value()).collect()).collect();
            shape.push((ps, pools));
        }
        let ids = ["ResA", "ResB", "ResC", "ResD", "ResE", "ResF", "ResG", "ResH", "ResI"];
        let mut res: Vec<(&str, J)> = Vec::new();
        for i in 0..nres {
            let ti = if many { 0 } else { self.r.below(ntypes) };
            let (ps, pools) = &shape[ti];
            let mut props: Vec<(&str, J)> = Vec::new();
            for (pi, p) in ps.iter().enumerate() {
                if !uniform && self.r.chance(1, 4) {
                    continue;
                }
                props.push((p, self.r.pick(&pools[pi]).clone()));
            }
            let mut kv = vec![("Type", vstr(types[ti]))];
            if uniform || self.r.chance(9, 10) {
                kv.push(("Properties", vmap(props)));
            }
            if self.r.chance(1, 5) {
                kv.push(("DependsOn", vstr("ResA")));
            }
            res.push((ids[i], vmap(kv)));
        }
        let mut top: Vec<(&str, J)> = Vec::new();
        if self.r.chance(1, 3) {
            top.push(("AWSTemplateFormatVersion", vstr("2010-09-09")));
        }
        top.push(("Resources", vmap(res)));
        if self.r.chance(1, 4) {
            top.push(("Outputs", vmap(vec![("o", vmap(vec![("Value", vint(1))]))])));
        }
        vmap(top)
    }
}

/// the `rulegen` command of the real code, in-process, on a template text
pub fn run_rulegen(template_text: &str, scratch: &str) -> J {
    use clap::Parser;
    let path = format!("{}/rulegen_template_{}.json", scratch, std::process::id());
    let errpath = format!("{}/rulegen_stderr_{}.txt", scratch, std::process::id());
    std::fs::write(&path, template_text).unwrap();
    let r = catch_unwind(AssertUnwindSafe(|| {
        let cmd = cfn_guard::commands::CfnGuard::try_parse_from(["cfn-guard", "rulegen", "-t", &path]).map_err(|e| format!("args: {}", e))?;
        let errfile = std::fs::File::create(&errpath).map_err(|e| e.to_string())?;
        let mut w = cfn_guard::utils::writer::Writer::new_with_err(
            cfn_guard::utils::writer::WriteBuffer::Vec(vec![]),
            cfn_guard::utils::writer::WriteBuffer::File(errfile),
        )
        .map_err(|e| e.to_string())?;
        let mut rd = cfn_guard::utils::reader::Reader::new(cfn_guard::utils::reader::ReadBuffer::Cursor(std::io::Cursor::new(vec![])));
        match cmd.execute(&mut w, &mut rd) {
            Ok(code) => {
                let out = w.into_string().map_err(|e| e.to_string())?;
                let err = std::fs::read_to_string(&errpath).unwrap_or_default();
                Ok((code, out, err))
            }
            Err(e) => Err(format!("{}", e)),
        }
    }));
    let _ = std::fs::remove_file(&path);
    let _ = std::fs::remove_file(&errpath);
    match r {
        Err(p) => json!({"kind":"panic","msg":exec::panic_msg_pub(p)}),
        Ok(Err(e)) => json!({"kind":"err","msg":e}),
        Ok(Ok((code, out, err))) => {
            if out.trim().is_empty() && !err.trim().is_empty() {
                json!({"kind":"err","code":code,"msg":err.chars().take(400).collect::<String>()})
            } else {
                json!({"kind":"ok","code":code,"text":out,"stderr":err.chars().take(400).collect::<String>()})
            }
        }
    }
}

fn key_of(part: &J) -> Option<String> {
    part.get("Key").and_then(|k| k.as_str()).map(|s| s.to_string())
}

/// read the printed rules (parse tree of the real parser, locations removed) back into
/// [{type, rule, var, props}]; anything that is not of the documented shape is counted in `odd`
pub fn extract(ast: &J) -> J {
    let mut odd = 0usize;
    let mut var_type: Vec<(String, String)> = Vec::new();
    for a in ast["assignments"].as_array().map(|a| a.as_slice()).unwrap_or(&[]) {
        let var = a["var"].as_str().unwrap_or("").to_string();
        let q = &a["value"]["AccessClause"]["query"];
        let parts = q.as_array().map(|a| a.as_slice()).unwrap_or(&[]);
        let mut ok = parts.len() == 3 && key_of(&parts[0]).as_deref() == Some("Resources") && parts[1].get("AllValues").is_some();
        let mut ty = String::new();
        if ok {
            let f = &parts[2]["Filter"][1];
            let c = &f[0][0]["Clause"]["access_clause"];
            ok = f.as_array().map(|x| x.len() == 1).unwrap_or(false)
                && f[0].as_array().map(|x| x.len() == 1).unwrap_or(false)
                && c["query"]["query"].as_array().map(|x| x.len() == 1 && key_of(&x[0]).as_deref() == Some("Type")).unwrap_or(false)
                && c["comparator"] == json!(["Eq", false])
                && f[0][0]["Clause"]["negation"] == json!(false);
            match c["compare_with"]["Value"]["value"].as_str() {
                Some(s) => ty = s.to_string(),
                None => ok = false,
            }
        }
        if ok {
            var_type.push((var, ty));
        } else {
            odd += 1;
        }
    }
    let mut rules = Vec::new();
    for r in ast["guard_rules"].as_array().map(|a| a.as_slice()).unwrap_or(&[]) {
        let name = r["rule_name"].as_str().unwrap_or("").to_string();
        // when %var !empty
        let conds = &r["conditions"];
        let c0 = &conds[0][0]["Clause"];
        let cq = &c0["access_clause"]["query"]["query"];
        let var = cq[0].get("Key").and_then(|k| k.as_str()).unwrap_or("").trim_start_matches('%').to_string();
        let cond_ok = conds.as_array().map(|x| x.len() == 1).unwrap_or(false)
            && conds[0].as_array().map(|x| x.len() == 1).unwrap_or(false)
            && cq.as_array().map(|x| x.len() == 1).unwrap_or(false)
            && c0["access_clause"]["comparator"] == json!(["Empty", true])
            && c0["negation"] == json!(false);
        if !cond_ok || !r["block"]["assignments"].as_array().map(|x| x.is_empty()).unwrap_or(false) {
            odd += 1;
        }
        let ty = var_type.iter().find(|(v, _)| *v == var).map(|(_, t)| t.clone());
        let mut props = Vec::new();
        for line in r["block"]["conjunctions"].as_array().map(|a| a.as_slice()).unwrap_or(&[]) {
            let alts = line.as_array().map(|a| a.as_slice()).unwrap_or(&[]);
            if alts.len() != 1 {
                odd += 1;
                continue;
            }
            let gc = &alts[0]["Clause"]["Clause"];
            let ac = &gc["access_clause"];
            let q = ac["query"]["query"].as_array().map(|a| a.as_slice()).unwrap_or(&[]);
            // %var[*].Properties.<P>  (the parser inserts [*] after a variable)
            let shape_ok = q.len() == 4
                && q[0].get("Key").and_then(|k| k.as_str()) == Some(&format!("%{}", var))
                && q[1].get("AllIndices").is_some()
                && key_of(&q[2]).as_deref() == Some("Properties")
                && key_of(&q[3]).is_some()
                && ac["query"]["match_all"] == json!(true)
                && gc["negation"] == json!(false)
                && ac["custom_message"].is_null();
            let op = match &ac["comparator"] {
                c if *c == json!(["Eq", false]) => "eq",
                c if *c == json!(["In", false]) => "in",
                _ => "",
            };
            let v = val::from_json(&ac["compare_with"]["Value"]["value"]);
            if !shape_ok || op.is_empty() || v.is_none() {
                odd += 1;
                continue;
            }
            let v = v.unwrap();
            let vals = if op == "in" {
                match v["t"].as_str() {
                    Some("list") => v["v"].clone(),
                    _ => {
                        odd += 1;
                        continue;
                    }
                }
            } else {
                json!([v])
            };
            props.push(json!({"p": cps(&key_of(&q[3]).unwrap()), "op": op, "vals": vals}));
        }
        match ty {
            Some(t) => rules.push(json!({"type": cps(&t), "rule": name, "rulecp": cps(&name), "var": var, "varcp": cps(&var), "props": props})),
            None => odd += 1,
        }
    }
    odd += var_type.len().saturating_sub(rules.len());
    json!({"rules": rules, "odd": odd})
}

fn map_get<'j>(m: &'j J, key: &str) -> Option<&'j J> {
    let ks = m["k"].as_array()?;
    let k = cps(key);
    ks.iter().position(|x| *x == k).map(|i| &m["v"][i])
}

fn is_scalar(v: &J) -> bool {
    matches!(v["t"].as_str(), Some("str") | Some("int") | Some("bool"))
}

/// change one scalar property value to a scalar that no resource of that type has for that
/// property; returns (type, property, mutated template)
pub fn mutate(doc: &J, r: &mut Rng) -> Option<(String, String, J)> {
    let res = map_get(doc, "Resources")?;
    let n = res["k"].as_array()?.len();
    let mut sites: Vec<(usize, usize)> = Vec::new();
    for i in 0..n {
        if let Some(p) = map_get(&res["v"][i], "Properties") {
            if p["t"] == "map" {
                for j in 0..p["k"].as_array().unwrap().len() {
                    if is_scalar(&p["v"][j]) {
                        sites.push((i, j));
                    }
                }
            }
        }
    }
    if sites.is_empty() {
        return None;
    }
    let (i, j) = *r.pick(&sites);
    let ty = cps_str(&map_get(&res["v"][i], "Type")?["v"]);
    let props = map_get(&res["v"][i], "Properties")?;
    let pname = cps_str(&props["k"][j]);
    // values present for (type, property)
    let mut present: Vec<J> = Vec::new();
    for x in 0..n {
        let rx = &res["v"][x];
        if map_get(rx, "Type").map(|t| cps_str(&t["v"])) == Some(ty.clone()) {
            if let Some(p) = map_get(rx, "Properties") {
                if let Some(v) = map_get(p, &pname) {
                    present.push(v.clone());
                }
            }
        }
    }
    let fresh_pool = [vstr("fresh-value"), vint(424242), vstr("zz"), vint(77), vbool(true), vbool(false)];
    let mut cands: Vec<&J> = fresh_pool.iter().filter(|c| !present.contains(c)).collect();
    // a bool only ever replaces a bool when the other bool is absent; prefer same-typed values
    let same: Vec<&J> = cands.iter().cloned().filter(|c| c["t"] == props["v"][j]["t"]).collect();
    if !same.is_empty() && r.chance(2, 3) {
        cands = same;
    }
    let fresh = (*r.pick(&cands)).clone();
    // rebuild the document with the value replaced
    let mut d2 = doc.clone();
    let ri = d2["k"].as_array().unwrap().iter().position(|x| *x == cps("Resources"))?;
    let pi = d2["v"][ri]["v"][i]["k"].as_array().unwrap().iter().position(|x| *x == cps("Properties"))?;
    d2["v"][ri]["v"][i]["v"][pi]["v"][j] = fresh;
    Some((ty, pname, d2))
}
