//! Seeded random generators of documents and rule programs (grammar only, no semantics).
//! Deliberately larger than the universes TLC enumerates exhaustively.
use crate::rng::Rng;
use crate::val::*;
use serde_json::{json, Value as J};

#[derive(Clone, Debug)]
pub struct Cfg {
    pub max_depth: usize,      // document depth
    pub max_rules: usize,
    pub max_lines: usize,
    pub max_alts: usize,
    pub nest: usize,           // block / when nesting
    pub named: bool,           // named rule references
    pub vars: bool,            // let variables
    pub rhs_query: bool,       // query right-hand sides
    pub filters: bool,
    pub keys_filter: bool,
    pub type_blocks: bool,
    pub pcalls: bool,
    pub functions: bool,
    pub cfn_shape: bool,       // CloudFormation-shaped documents
    pub unicode: bool,
    pub ranges: bool,
    pub regex: bool,
    pub messages: bool,
    pub distinct_rule_names: bool,
}

impl Cfg {
    pub fn core() -> Cfg {
        Cfg {
            max_depth: 3,
            max_rules: 4,
            max_lines: 3,
            max_alts: 3,
            nest: 2,
            named: true,
            vars: true,
            rhs_query: true,
            filters: true,
            keys_filter: false,
            type_blocks: false,
            pcalls: false,
            functions: false,
            cfn_shape: false,
            unicode: false,
            ranges: true,
            regex: true,
            messages: false,
            distinct_rule_names: true,
        }
    }
    pub fn functions() -> Cfg {
        Cfg { functions: true, ..Cfg::full() }
    }
    pub fn full() -> Cfg {
        Cfg {
            keys_filter: true,
            type_blocks: true,
            pcalls: true,
            cfn_shape: true,
            unicode: true,
            messages: true,
            ..Cfg::core()
        }
    }
}

const KEYS: [&str; 4] = ["a", "b", "c", "d"];
const INTS: [i64; 6] = [0, 1, 2, 5, -1, 10];
const STRS: [&str; 8] = ["", "x", "xy", "y", "a", "1", "true", "xyz"];
const USTRS: [&str; 6] = ["é", "日本", "x😀", "ß", "it's", "q\"q"];
const FLTS: [i64; 4] = [500, 1500, 2000, -500];
const FSTRS: [&str; 12] = ["12", "-3", "1.5", "TRUE", "false", "Hello", "a%20b", "h\u{e9}llo", "{\"k\":1}", "[1,2]", "7", "x%2Fy"];

pub struct Gen<'a> {
    pub r: &'a mut Rng,
    pub cfg: Cfg,
}

impl<'a> Gen<'a> {
    pub fn scalar(&mut self) -> J {
        match self.r.below(10) {
            0 | 1 | 2 => vint(*self.r.pick(&INTS)),
            3 | 4 | 5 => {
                if self.cfg.functions && self.r.chance(1, 2) {
                    return vstr(FSTRS[self.r.below(FSTRS.len())]);
                }
                if self.cfg.unicode && self.r.chance(1, 4) {
                    vstr(USTRS[self.r.below(USTRS.len())])
                } else {
                    vstr(STRS[self.r.below(STRS.len())])
                }
            }
            6 => vbool(self.r.chance(1, 2)),
            7 => vnull(),
            8 => vflt(*self.r.pick(&FLTS)),
            _ => vint(*self.r.pick(&INTS)),
        }
    }

    pub fn value(&mut self, depth: usize) -> J {
        if depth == 0 || self.r.chance(2, 5) {
            return self.scalar();
        }
        if self.r.chance(1, 2) {
            let n = self.r.below(4);
            // lists are often homogeneous maps (the interesting case for filters/blocks)
            if self.r.chance(1, 2) && depth >= 2 {
                let xs = (0..n).map(|_| self.map(depth - 1)).collect();
                vlist(xs)
            } else {
                let xs = (0..n).map(|_| self.value(depth - 1)).collect();
                vlist(xs)
            }
        } else {
            self.map(depth - 1)
        }
    }

    pub fn map(&mut self, depth: usize) -> J {
        let n = self.r.below(4);
        let mut ks: Vec<&str> = KEYS.to_vec();
        self.r.shuffle(&mut ks);
        let kv: Vec<(&str, J)> = ks.into_iter().take(n).map(|k| (k, self.value(depth))).collect();
        vmap(kv)
    }

    pub fn doc(&mut self) -> J {
        if self.cfg.cfn_shape && self.r.chance(1, 3) {
            return self.cfn_doc();
        }
        // the root is a non-empty map most of the time
        let mut d = self.map(self.cfg.max_depth);
        if d["k"].as_array().unwrap().is_empty() && self.r.chance(3, 4) {
            d = vmap(vec![("a", self.value(self.cfg.max_depth - 1))]);
        }
        d
    }

    pub fn cfn_doc(&mut self) -> J {
        let n = self.r.below(4);
        let types = ["AWS::S3::Bucket", "AWS::EC2::Instance", "Custom::Thing"];
        let ids = ["r1", "r2", "r3"];
        let mut res = Vec::new();
        for i in 0..n {
            let t = *self.r.pick(&types);
            let mut kv = vec![("Type", vstr(t))];
            if self.r.chance(4, 5) {
                kv.push(("Properties", self.map(2)));
            }
            res.push((ids[i], vmap(kv)));
        }
        let mut top = Vec::new();
        if self.r.chance(9, 10) {
            top.push(("Resources", vmap(res)));
        }
        if self.r.chance(1, 3) {
            top.push(("a", self.value(1)));
        }
        vmap(top)
    }

    // ---------------------------------------------------------------- queries

    /// walk `cur` producing query parts; returns parts.  `budget` bounds the length.
    fn walk(&mut self, cur: Option<&J>, budget: usize, parts: &mut Vec<J>, lvl: usize) {
        if budget == 0 {
            return;
        }
        let stop = self.r.chance(1, 4) && !parts.is_empty();
        if stop {
            return;
        }
        let t = cur.and_then(|c| c["t"].as_str()).unwrap_or("none");
        match t {
            "map" => {
                let c = cur.unwrap();
                let ks: Vec<String> =
                    c["k"].as_array().unwrap().iter().map(|k| cps_str(k)).collect();
                let roll = self.r.below(20);
                if roll < 12 && !ks.is_empty() {
                    let i = self.r.below(ks.len());
                    parts.push(json!({"p":"key","k":cps(&ks[i])}));
                    let next = c["v"][i].clone();
                    self.walk(Some(&next), budget - 1, parts, lvl);
                } else if roll < 14 {
                    let k = *self.r.pick(&KEYS);
                    parts.push(json!({"p":"key","k":cps(k)}));
                    let next = ks.iter().position(|x| x == k).map(|i| c["v"][i].clone());
                    self.walk(next.as_ref(), budget - 1, parts, lvl);
                } else if roll < 17 {
                    parts.push(json!({"p":"all"}));
                    let next = c["v"].as_array().unwrap().first().cloned();
                    if self.cfg.filters && self.r.chance(1, 4) && lvl < 2 {
                        if let Some(n) = &next {
                            let f = self.filter(Some(n), lvl + 1);
                            parts.push(f);
                        }
                    }
                    self.walk(next.as_ref(), budget - 1, parts, lvl);
                } else if roll < 18 && self.cfg.keys_filter && !parts.is_empty() {
                    let k = if !ks.is_empty() && self.r.chance(2, 3) {
                        ks[self.r.below(ks.len())].clone()
                    } else {
                        self.r.pick(&KEYS).to_string()
                    };
                    // right-hand sides: a string, a list of strings, a regex (with == and with in),
                    // a list of regexes
                    let re = |s: &str| json!({"t":"re","s":true,"e":false,"v":crate::val::cps(s)});
                    let (rhs, op) = match self.r.below(6) {
                        0 | 1 => (json!({"r":"val","v":vstr(&k)}), "eq"),
                        2 | 3 => (json!({"r":"val","v":vlist(vec![vstr(&k), vstr("zz")])}), "in"),
                        4 => (json!({"r":"val","v":re(&k)}), if self.r.chance(1, 2) { "eq" } else { "in" }),
                        _ => (json!({"r":"val","v":vlist(vec![re(&k), re("zz")])}), "in"),
                    };
                    parts.push(json!({"p":"keys","op":op,"on":self.r.chance(1,4),"rhs":rhs}));
                    let next = c["v"].as_array().unwrap().first().cloned();
                    self.walk(next.as_ref(), budget - 1, parts, lvl);
                } else if roll < 19 && self.cfg.filters && !parts.is_empty() && lvl < 2 {
                    // filter directly on a map reached through a key: iterates the map's values
                    if matches!(parts.last().map(|p| p["p"].as_str().unwrap()), Some("key")) {
                        let next = c["v"].as_array().unwrap().first().cloned();
                        let f = self.filter(next.as_ref(), lvl + 1);
                        parts.push(f);
                        self.walk(next.as_ref(), budget - 1, parts, lvl);
                    }
                } else {
                    parts.push(json!({"p":"idx"}));
                    self.walk(cur, budget - 1, parts, lvl);
                }
            }
            "list" => {
                let c = cur.unwrap();
                let xs = c["v"].as_array().unwrap();
                let roll = self.r.below(20);
                let first = xs.first().cloned();
                if roll < 8 {
                    parts.push(json!({"p":"idx"}));
                    if self.cfg.filters && self.r.chance(1, 5) && lvl < 2 {
                        let f = self.filter(first.as_ref(), lvl + 1);
                        parts.push(f);
                    }
                    self.walk(first.as_ref(), budget - 1, parts, lvl);
                } else if roll < 11 {
                    let i = self.r.below(4);
                    parts.push(json!({"p":"at","i":i}));
                    let next = xs.get(i).cloned();
                    self.walk(next.as_ref(), budget - 1, parts, lvl);
                } else if roll < 16 && self.cfg.filters && lvl < 2 && !parts.is_empty() {
                    let f = self.filter(first.as_ref(), lvl + 1);
                    parts.push(f);
                    self.walk(first.as_ref(), budget - 1, parts, lvl);
                } else if roll < 18 {
                    parts.push(json!({"p":"all"}));
                    self.walk(first.as_ref(), budget - 1, parts, lvl);
                } else {
                    let k = *self.r.pick(&KEYS);
                    parts.push(json!({"p":"key","k":cps(k)}));
                    self.walk(None, budget - 1, parts, lvl);
                }
            }
            _ => {
                // scalar or unknown: mostly stop
                let roll = self.r.below(10);
                if parts.is_empty() || roll < 2 {
                    let k = *self.r.pick(&KEYS);
                    parts.push(json!({"p":"key","k":cps(k)}));
                    self.walk(None, budget - 1, parts, lvl);
                } else if roll < 3 {
                    parts.push(json!({"p":"idx"}));
                } else if roll < 4 {
                    parts.push(json!({"p":"all"}));
                }
            }
        }
    }

    fn filter(&mut self, elem: Option<&J>, lvl: usize) -> J {
        let nl = 1 + self.r.below(2);
        let mut cnf = Vec::new();
        for _ in 0..nl {
            let na = 1 + self.r.below(2);
            let alts: Vec<J> = (0..na).map(|_| self.gac(elem, &[], lvl)).collect();
            cnf.push(J::Array(alts));
        }
        json!({"p":"filter","c":cnf})
    }

    /// query relative to `cur`; may start with a variable from `vars` (name, value it denotes)
    pub fn query(&mut self, cur: Option<&J>, vars: &[(String, Option<J>)], lvl: usize) -> Vec<J> {
        let mut parts = Vec::new();
        if self.cfg.vars && !vars.is_empty() && self.r.chance(1, 3) {
            let (n, v) = self.r.pick(vars).clone();
            parts.push(json!({"p":"var","n":n}));
            if self.r.chance(1, 2) {
                // continue below the variable's value (a list value is iterated implicitly)
                let below = match &v {
                    Some(x) if x["t"] == "list" => x["v"].as_array().unwrap().first().cloned(),
                    other => other.clone(),
                };
                let before = parts.len();
                self.walk(below.as_ref(), 2, &mut parts, lvl);
                // a filter may not directly follow the variable in a way the grammar rejects
                let _ = before;
            }
            return parts;
        }
        if self.r.chance(1, 12) {
            parts.push(json!({"p":"this"}));
            if self.r.chance(1, 2) {
                return parts;
            }
        }
        let b = 1 + self.r.below(4);
        self.walk(cur, b, &mut parts, lvl);
        if parts.is_empty() {
            parts.push(json!({"p":"key","k":cps(*self.r.pick(&KEYS))}));
        }
        // a query cannot start with an index/all/filter part
        let p0 = parts[0]["p"].as_str().unwrap().to_string();
        if p0 != "key" && p0 != "this" && p0 != "var" {
            parts.insert(0, json!({"p":"this"}));
        }
        parts
    }

    /// the first value a function-free, variable-free query denotes on `cur` (used only to pick
    /// plausible right-hand sides; precision does not matter)
    fn peek(&self, cur: Option<&J>, parts: &[J]) -> Option<J> {
        let mut c = cur?.clone();
        for p in parts {
            match p["p"].as_str().unwrap() {
                "this" => {}
                "key" => {
                    if c["t"] != "map" {
                        return None;
                    }
                    let k = cps_str(&p["k"]);
                    let i = c["k"].as_array().unwrap().iter().position(|x| cps_str(x) == k)?;
                    c = c["v"][i].clone();
                }
                "all" | "idx" | "filter" | "keys" => {
                    if c["t"] == "list" || (c["t"] == "map" && p["p"] != "idx") {
                        c = c["v"].as_array().unwrap().first()?.clone();
                    }
                }
                "at" => {
                    if c["t"] != "list" {
                        return None;
                    }
                    c = c["v"].as_array().unwrap().get(p["i"].as_u64().unwrap() as usize)?.clone();
                }
                _ => return None,
            }
        }
        Some(c)
    }

    fn literal_near(&mut self, v: Option<&J>) -> J {
        // a literal that is, often, equal or comparable to `v`
        match v {
            Some(x) if self.r.chance(3, 5) => match x["t"].as_str().unwrap() {
                "int" => {
                    let d = [0i64, 0, 1, -1][self.r.below(4)];
                    vint(x["v"].as_i64().unwrap() + d)
                }
                "flt" => vflt((x["v"].as_i64().unwrap() + [0i64, 500, -500][self.r.below(3)]).max(0)),
                "str" => {
                    if self.cfg.regex && self.r.chance(1, 4) && !cps_str(&x["v"]).is_empty() {
                        let s = cps_str(&x["v"]);
                        let lit: String = s.chars().take(1 + self.r.below(2)).collect();
                        json!({"t":"re","s":self.r.chance(1,2),"e":self.r.chance(1,3),"v":cps(&lit)})
                    } else {
                        x.clone()
                    }
                }
                "list" => {
                    if self.r.chance(1, 2) {
                        x.clone()
                    } else {
                        x["v"].as_array().unwrap().first().cloned().unwrap_or_else(|| self.scalar())
                    }
                }
                _ => x.clone(),
            },
            _ => {
                if self.r.chance(1, 5) {
                    let n = self.r.below(3);
                    vlist((0..n).map(|_| self.scalar()).collect())
                } else {
                    self.scalar()
                }
            }
        }
    }

    fn clean_literal(&mut self, v: J) -> J {
        // literals the Guard grammar cannot express are replaced: negative floats
        match v["t"].as_str().unwrap() {
            "flt" if v["v"].as_i64().unwrap() < 0 => vflt(500),
            "list" => vlist(v["v"].as_array().unwrap().iter().map(|e| self.clean_literal(e.clone())).collect()),
            "map" => {
                let vs: Vec<J> = v["v"].as_array().unwrap().iter().map(|e| self.clean_literal(e.clone())).collect();
                json!({"t":"map","k":v["k"],"v":vs})
            }
            _ => v,
        }
    }

    pub fn gac(&mut self, cur: Option<&J>, vars: &[(String, Option<J>)], lvl: usize) -> J {
        let q = self.query(cur, vars, lvl);
        let all = !self.r.chance(1, 4);
        let neg = self.r.chance(1, 5);
        let unary = ["exists", "empty", "is_string", "is_list", "is_struct", "is_bool", "is_int", "is_float", "is_null"];
        let binary = ["eq", "eq", "eq", "in", "lt", "le", "gt", "ge"];
        let mut c = if self.r.chance(2, 5) {
            let op = if self.r.chance(1, 2) { unary[self.r.below(2)] } else { *self.r.pick(&unary) };
            json!({"c":"gac","q":q,"all":all,"neg":neg,"op":op,"on":self.r.chance(1,3),"rhs":[]})
        } else {
            let op = *self.r.pick(&binary);
            let on = (op == "eq" || op == "in") && self.r.chance(1, 3);
            let seen = if q[0]["p"] == "var" { None } else { self.peek(cur, &q) };
            let rhs = if self.cfg.functions && self.r.chance(1, 8) {
                self.fn_call(cur, vars, 1)
            } else if self.cfg.rhs_query && self.r.chance(1, 5) {
                let rq = self.query(cur, vars, lvl);
                json!({"r":"q","q":rq,"all":true})
            } else {
                let mut lit = self.literal_near(seen.as_ref());
                if op == "in" && lit["t"] != "list" && self.r.chance(2, 3) {
                    if self.cfg.ranges && lit["t"] == "int" && self.r.chance(1, 2) {
                        let n = lit["v"].as_i64().unwrap();
                        lit = json!({"t":"rint","lo":n - self.r.below(2) as i64,"hi":n + self.r.below(3) as i64,"inc":self.r.below(4)});
                    } else {
                        let other = self.scalar();
                        lit = vlist(vec![other, lit]);
                    }
                }
                let lit = self.clean_literal(lit);
                json!({"r":"val","v":lit})
            };
            json!({"c":"gac","q":q,"all":all,"neg":neg,"op":op,"on":on,"rhs":[rhs]})
        };
        if self.cfg.messages && self.r.chance(1, 6) {
            // some messages hold a character that XML output has to escape
            let k = self.r.below(1000);
            c["msg"] = if k % 3 == 0 { json!(format!("m{} & co", k)) } else { json!(format!("m{}", k)) };
        }
        c
    }

    /// a built-in function call over a query or literal argument
    fn fn_call(&mut self, cur: Option<&J>, vars: &[(String, Option<J>)], depth: usize) -> J {
        let arg = if depth > 0 && self.r.chance(1, 5) {
            self.fn_call(cur, vars, depth - 1)
        } else if self.r.chance(1, 6) {
            json!({"r":"val","v":vstr(FSTRS[self.r.below(FSTRS.len())])})
        } else {
            let q = self.query(cur, vars, 0);
            json!({"r":"q","q":q,"all":true})
        };
        let f = *self.r.pick(&["count", "to_upper", "to_lower", "parse_int", "parse_float", "parse_boolean",
                               "parse_string", "parse_char", "json_parse", "url_decode", "join", "substring",
                               "regex_replace", "count", "parse_string", "to_upper"]);
        match f {
            "join" => {
                let d = *self.r.pick(&[",", "", "--"]);
                json!({"r":"fn","f":f,"a":[arg, {"r":"val","v":vstr(d)}]})
            }
            "substring" => {
                let a = self.r.below(3) as i64;
                let b = a + self.r.below(4) as i64;
                json!({"r":"fn","f":f,"a":[arg, {"r":"val","v":vint(a)}, {"r":"val","v":vint(b)}]})
            }
            "regex_replace" => {
                let (p, r) = *self.r.pick(&[("^(.)(.*)$", "${2}${1}"), ("^(\\w+)%20(\\w+)$", "${2} ${1}"), ("^H(.*)$", "J${1}")]);
                json!({"r":"fn","f":f,"a":[arg, {"r":"val","v":vstr(p)}, {"r":"val","v":vstr(r)}]})
            }
            _ => json!({"r":"fn","f":f,"a":[arg]}),
        }
    }

    fn let_binding(&mut self, name: &str, cur: Option<&J>, vars: &[(String, Option<J>)]) -> (J, Option<J>) {
        if self.cfg.functions && self.r.chance(2, 5) {
            let f = self.fn_call(cur, vars, 1);
            return (json!({"n":name,"v":f}), None);
        }
        if self.r.chance(1, 3) {
            let v = self.literal_near(None);
            let v = self.clean_literal(v);
            (json!({"n":name,"v":{"r":"val","v":v}}), Some(v))
        } else {
            let q = self.query(cur, vars, 0);
            let seen = if q[0]["p"] == "var" { None } else { self.peek(cur, &q) };
            (json!({"n":name,"v":{"r":"q","q":q,"all":!self.r.chance(1,6)}}), seen)
        }
    }

    fn cnf(
        &mut self,
        cur: Option<&J>,
        vars: &[(String, Option<J>)],
        rules_before: &[String],
        nest: usize,
        named_ok: bool,
        rc: bool,
    ) -> J {
        let nl = 1 + self.r.below(self.cfg.max_lines);
        let mut lines = Vec::new();
        for _ in 0..nl {
            let na = if self.r.chance(2, 3) { 1 } else { 1 + self.r.below(self.cfg.max_alts) };
            let alts: Vec<J> =
                (0..na).map(|_| self.clause(cur, vars, rules_before, nest, named_ok, rc)).collect();
            lines.push(J::Array(alts));
        }
        J::Array(lines)
    }

    fn when_cnf(&mut self, cur: Option<&J>, vars: &[(String, Option<J>)], rules_before: &[String]) -> J {
        let nl = 1 + self.r.below(2);
        let mut lines = Vec::new();
        for _ in 0..nl {
            let na = 1 + self.r.below(2);
            let alts: Vec<J> = (0..na)
                .map(|_| {
                    if self.cfg.named && !rules_before.is_empty() && self.r.chance(1, 3) {
                        json!({"c":"named","n":self.r.pick(rules_before),"neg":self.r.chance(1,4)})
                    } else {
                        self.gac(cur, vars, 0)
                    }
                })
                .collect();
            lines.push(J::Array(alts));
        }
        J::Array(lines)
    }

    fn clause(
        &mut self,
        cur: Option<&J>,
        vars: &[(String, Option<J>)],
        rules_before: &[String],
        nest: usize,
        named_ok: bool,
        rc: bool,
    ) -> J {
        let roll = self.r.below(100);
        if roll < 12 && nest > 0 {
            // query block
            let q = self.query(cur, vars, 0);
            let seen = if q[0]["p"] == "var" { None } else { self.peek(cur, &q) };
            let inner = match &seen {
                Some(x) if x["t"] == "list" => x["v"].as_array().unwrap().first().cloned(),
                other => other.clone(),
            };
            let mut bvars = vars.to_vec();
            let mut lets = Vec::new();
            if self.cfg.vars && self.r.chance(1, 4) {
                let name = format!("v{}", nest);
                let (l, v) = self.let_binding(&name, inner.as_ref(), &bvars);
                lets.push(l);
                bvars.retain(|(n, _)| *n != name);
                bvars.push((name, v));
            }
            let body = self.cnf(inner.as_ref(), &bvars, rules_before, nest - 1, false, false);
            json!({"c":"block","q":q,"all":!self.r.chance(1,4),"ne":self.r.chance(1,8),"lets":lets,"b":body})
        } else if roll < 20 && nest > 0 {
            // named rules may appear in any when-condition; in a when-body only when the
            // when-block itself is a rule-level clause
            let w = self.when_cnf(cur, vars, rules_before);
            let body = self.cnf(cur, vars, rules_before, nest - 1, rc, false);
            json!({"c":"when","w":w,"lets":[],"b":body})
        } else if roll < 28 && named_ok && self.cfg.named && !rules_before.is_empty() {
            let mut c = json!({"c":"named","n":self.r.pick(rules_before),"neg":self.r.chance(1,4)});
            if self.cfg.messages && self.r.chance(1, 3) {
                c["msg"] = json!(format!("n{}", self.r.below(1000)));
            }
            c
        } else if roll < 34 && rc && self.cfg.type_blocks && nest > 0 {
            let tn = *self.r.pick(&["AWS::S3::Bucket", "AWS::EC2::Instance", "Custom::Thing"]);
            let res = cur.and_then(|c| self.peek(Some(c), &[json!({"p":"key","k":cps("Resources")}), json!({"p":"all"})]));
            let w = if self.r.chance(1, 4) { self.when_cnf(cur, vars, rules_before) } else { json!([]) };
            let body = self.cnf(res.as_ref(), vars, rules_before, nest - 1, false, false);
            json!({"c":"type","tn":tn,"tnc":cps(tn),"w":w,"lets":[],"b":body})
        } else {
            self.gac(cur, vars, 0)
        }
    }

    pub fn program(&mut self, doc: &J) -> J {
        let cur = Some(doc);
        let mut vars: Vec<(String, Option<J>)> = Vec::new();
        let mut flets = Vec::new();
        if self.cfg.vars {
            let nl = if self.cfg.functions { 1 + self.r.below(3) } else { self.r.below(3) };
            for i in 0..nl {
                let name = format!("g{}", i);
                let (l, v) = self.let_binding(&name, cur, &vars);
                flets.push(l);
                vars.push((name, v));
            }
        }
        let nr = 1 + self.r.below(self.cfg.max_rules);
        let mut rules = Vec::new();
        let mut names: Vec<String> = Vec::new();
        for i in 0..nr {
            let name = if !self.cfg.distinct_rule_names && i > 0 && self.r.chance(1, 4) {
                names[self.r.below(names.len())].clone()
            } else {
                format!("r{}", i + 1)
            };
            // references only go to names first defined strictly before this name's first
            // definition: the reference graph stays acyclic also with repeated names
            let first = names.iter().position(|n| *n == name).unwrap_or(names.len());
            let mut before: Vec<String> = Vec::new();
            for n in names.iter().take(first) {
                if *n != name && !before.contains(n) {
                    before.push(n.clone());
                }
            }
            let mut rvars = vars.clone();
            let mut lets = Vec::new();
            if self.cfg.vars && self.r.chance(1, 3) {
                let vn = "l1".to_string();
                let (l, v) = self.let_binding(&vn, cur, &rvars);
                lets.push(l);
                rvars.push((vn, v));
            }
            let w = if self.r.chance(1, 4) { self.when_cnf(cur, &vars, &before) } else { json!([]) };
            let body = self.cnf(cur, &rvars, &before, self.cfg.nest, true, true);
            rules.push(json!({"n":name,"w":w,"lets":lets,"b":body}));
            names.push(name);
        }
        // parameterised rules: one or two, called from one or two rules with query / literal arguments
        let mut prules: Vec<J> = Vec::new();
        if self.cfg.pcalls && self.r.chance(1, 3) {
            let np = 1 + self.r.below(2);
            for k in 0..np {
                let name = format!("pf{}", k + 1);
                let nparams = 1 + self.r.below(2);
                let ps: Vec<String> = (0..nparams).map(|x| format!("p{}", x + 1)).collect();
                let mut pvars = vars.clone();
                for pn in &ps {
                    pvars.push((pn.clone(), None));
                }
                let body = self.cnf(cur, &pvars, &[], 1, false, false);
                prules.push(json!({"n":name,"ps":ps,"lets":[],"b":body}));
            }
            let ncalls = 1 + self.r.below(2);
            for _ in 0..ncalls {
                let ri = self.r.below(rules.len());
                let pi = self.r.below(prules.len());
                let nparams = prules[pi]["ps"].as_array().unwrap().len();
                let mut args = Vec::new();
                for _ in 0..nparams {
                    if self.r.chance(1, 4) {
                        let mut v = self.scalar();
                        if v["t"] == "flt" {
                            v = crate::val::vint(7);
                        }
                        args.push(json!({"r":"val","v":v}));
                    } else {
                        args.push(json!({"r":"q","q":self.query(cur, &vars, 0),"all":true}));
                    }
                }
                let call = json!({"c":"pcall","n":prules[pi]["n"],"a":args,"neg":self.r.chance(1,6)});
                let body = rules[ri]["b"].as_array_mut().unwrap();
                let at = self.r.below(body.len() + 1);
                body.insert(at, json!([call]));
            }
        }
        // definition order is shuffled so that rules are referenced before and after their definition
        if self.r.chance(1, 2) {
            self.r.shuffle(&mut rules);
        }
        json!({"lets":flets,"rules":rules,"prules":prules})
    }
}
