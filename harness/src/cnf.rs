//! spec -> impl replay of the CNF family enumerated by spec/MC_Cnf.tla (C02)
use crate::{exec, render, val};
use serde_json::{json, Value as J};

fn kind_char(k: &str) -> char {
    match k {
        "File" => 'f', "Rule" => 'r', "RuleCond" => 'c', "Disj" => 'd', "Clause" => 'l',
        "Value" => 'v', "Block" => 'b', "When" => 'w', "WhenCond" => 'x', "TypeCheck" => 't',
        "TypeCond" => 'u', "TypeBlock" => 'y', "Filter" => 'q', _ => '?',
    }
}
fn st_char(s: &str) -> char {
    match s { "PASS" => 'P', "FAIL" => 'F', "SKIP" => 'S', _ => '?' }
}

/// serialise a status tree the way MC_Cnf.Ser does; Filter nodes below the root are dropped
pub fn ser(n: &J, out: &mut String) {
    out.push(kind_char(n["k"].as_str().unwrap_or("?")));
    out.push(st_char(n["st"].as_str().unwrap_or("?")));
    let kids: Vec<&J> = n["ch"].as_array().map(|a| a.iter().filter(|c| c["k"] != "Filter").collect()).unwrap_or_default();
    // value checks are leaves in the specification's tree
    if n["k"] == "Value" || kids.is_empty() {
        return;
    }
    out.push('(');
    for k in kids {
        ser(k, out);
    }
    out.push(')');
}

fn first_filter(n: &J) -> Option<&J> {
    if n["k"] == "Filter" {
        return Some(n);
    }
    for c in n["ch"].as_array()? {
        if let Some(f) = first_filter(c) {
            return Some(f);
        }
    }
    None
}

pub fn build(tables: &J, x: usize, c: &str) -> J {
    let leaves = &tables["leaves"];
    let lines: Vec<Vec<J>> = c
        .split('|')
        .map(|l| l.chars().map(|s| leaves[s.to_string()].clone()).collect())
        .collect();
    if x == 7 {
        let tmpl = &tables["programs"][6]["rules"][0];
        let rules: Vec<J> = lines
            .iter()
            .enumerate()
            .map(|(i, l)| {
                let mut r = tmpl.clone();
                r["n"] = json!(format!("r{}", i + 1));
                r["b"] = json!([[l[0]]]);
                r
            })
            .collect();
        let mut p = tables["programs"][6].clone();
        p["rules"] = J::Array(rules);
        return p;
    }
    let mut p = tables["programs"][x - 1].clone();
    let hole = tables["holes"][x - 1].as_str().unwrap();
    *p.pointer_mut(hole).expect("hole") = json!(lines);
    p
}

pub fn replay_case(tables: &J, c: &J) -> Option<J> {
    let x = c["x"].as_u64().unwrap() as usize;
    let prog = build(tables, x, c["c"].as_str().unwrap());
    let rules = render::render_file(&prog);
    let data = val::to_json_text(&tables["doc"]);
    let obs = exec::observe_with_rtree(&rules, &data);
    if obs["kind"] != "ok" {
        return Some(json!({"kind":"spec-vs-impl","case":c,"rules_text":rules,"data_text":data,"observed":obs}));
    }
    let mut t = String::new();
    ser(&obs["rtree"], &mut t);
    let mut f = String::new();
    if x == 5 {
        if let Some(fl) = first_filter(&obs["rtree"]) {
            ser(fl, &mut f);
        }
    }
    if t != c["t"].as_str().unwrap() || f != c["f"].as_str().unwrap() {
        return Some(json!({"kind":"spec-vs-impl","case":c,"prog":prog,"doc":tables["doc"],"rules_text":rules,"data_text":data,
                           "observed":{"t":t,"f":f}}));
    }
    None
}
