pub mod exec;
pub mod gen;
pub mod render;
pub mod rng;
pub mod val;
pub mod e1;
pub mod xform;
pub mod cnf;
