//! SplitMix64: the only randomness source of the harness (the `rand` crate does not resolve
//! offline under the repository's pinned toolchain).
#[derive(Clone)]
pub struct Rng(pub u64);

impl Rng {
    pub fn new(seed: u64) -> Rng {
        Rng(seed ^ 0x9E37_79B9_7F4A_7C15)
    }
    pub fn next(&mut self) -> u64 {
        self.0 = self.0.wrapping_add(0x9E37_79B9_7F4A_7C15);
        let mut z = self.0;
        z = (z ^ (z >> 30)).wrapping_mul(0xBF58_476D_1CE4_E5B9);
        z = (z ^ (z >> 27)).wrapping_mul(0x94D0_49BB_1331_11EB);
        z ^ (z >> 31)
    }
    /// uniform in 0..n (n > 0)
    pub fn below(&mut self, n: usize) -> usize {
        (self.next() % (n as u64)) as usize
    }
    pub fn chance(&mut self, num: usize, den: usize) -> bool {
        self.below(den) < num
    }
    pub fn pick<'a, T>(&mut self, xs: &'a [T]) -> &'a T {
        &xs[self.below(xs.len())]
    }
    pub fn shuffle<T>(&mut self, xs: &mut Vec<T>) {
        for i in (1..xs.len()).rev() {
            let j = self.below(i + 1);
            xs.swap(i, j);
        }
    }
    pub fn fork(&mut self) -> Rng {
        Rng::new(self.next())
    }
}
