//! Driving the real implementation and projecting what it returns into the exchange format.
use crate::val;
use serde_json::{json, Value as J};
use std::panic::{catch_unwind, AssertUnwindSafe};

pub fn install_quiet_panic_hook() {
    std::panic::set_hook(Box::new(|_| {}));
}

pub fn panic_msg_pub(e: Box<dyn std::any::Any + Send>) -> String {
    panic_msg(e)
}

fn panic_msg(e: Box<dyn std::any::Any + Send>) -> String {
    if let Some(s) = e.downcast_ref::<&str>() {
        s.to_string()
    } else if let Some(s) = e.downcast_ref::<String>() {
        s.clone()
    } else {
        "panic".to_string()
    }
}

/// raw library call: Ok(Ok(text)) | Ok(Err(error text)) | Err(panic text)
pub fn run_checks_raw(rules: &str, data: &str, verbose: bool) -> Result<Result<String, String>, String> {
    let r = catch_unwind(AssertUnwindSafe(|| {
        cfn_guard::run_checks(
            cfn_guard::ValidateInput { content: data, file_name: "d.json" },
            cfn_guard::ValidateInput { content: rules, file_name: "r.guard" },
            verbose,
        )
    }));
    match r {
        Ok(Ok(s)) => Ok(Ok(s)),
        Ok(Err(e)) => Ok(Err(format!("{}", e))),
        Err(p) => Err(panic_msg(p)),
    }
}

fn status_of(c: &J) -> J {
    // container payloads: {"status":..} | plain status string | {"block":{"status"}}
    if let Some(s) = c.as_str() {
        return json!(s);
    }
    if let Some(s) = c.get("status") {
        return s.clone();
    }
    if let Some(b) = c.get("block") {
        return b["status"].clone();
    }
    json!("?")
}

fn qr(j: &J, full: bool) -> J {
    // QueryResult serialisation: {"Resolved":{"path","value"}} | {"UnResolved":{"traversed_to":{path,value},"remaining_query","reason"}} | {"Literal":..}
    if let Some(r) = j.get("Resolved").or_else(|| j.get("Literal")) {
        let mut o = json!({"q": if j.get("Literal").is_some() {"lit"} else {"res"},
                           "path": val::path_segments(r["path"].as_str().unwrap_or(""))});
        if full {
            if let Some(v) = val::from_json(&r["value"]) {
                o["val"] = v;
            }
        }
        o
    } else if let Some(u) = j.get("UnResolved") {
        let t = &u["traversed_to"];
        let mut o = json!({"q":"unres",
                           "path": val::path_segments(t["path"].as_str().unwrap_or("")),
                           "rem": u["remaining_query"].clone()});
        if full {
            if let Some(v) = val::from_json(&t["value"]) {
                o["val"] = v;
            }
        }
        o
    } else {
        json!({"q":"?"})
    }
}

/// EventRecord JSON -> projected node.  Filter subtrees are dropped (they are not read by the
/// report builder and the specification does not emit them); children of a value check (the
/// RuleCheck of a named rule evaluated at that point) are dropped as well, flagged by `dep`.
pub fn project(rec: &J, full: bool) -> Option<J> {
    let cont = rec.get("container")?;
    let (kind, payload) = if let Some(o) = cont.as_object() {
        let (k, v) = o.iter().next()?;
        (k.as_str(), v)
    } else {
        return None;
    };
    let mut children: Vec<J> = Vec::new();
    let kids = rec["children"].as_array().cloned().unwrap_or_default();
    let mut node = match kind {
        "FileCheck" => json!({"k":"File","st":status_of(payload),"n":payload["name"]}),
        "RuleCheck" => json!({"k":"Rule","st":status_of(payload),"n":payload["name"]}),
        "RuleCondition" => json!({"k":"RuleCond","st":status_of(payload)}),
        "TypeCheck" => json!({"k":"TypeCheck","st":status_of(payload),"n":payload["type_name"]}),
        "TypeCondition" => json!({"k":"TypeCond","st":status_of(payload)}),
        "TypeBlock" => json!({"k":"TypeBlock","st":status_of(payload)}),
        "Filter" => return None,
        "WhenCheck" => json!({"k":"When","st":status_of(payload)}),
        "WhenCondition" => json!({"k":"WhenCond","st":status_of(payload)}),
        "Disjunction" => json!({"k":"Disj","st":status_of(payload)}),
        "BlockGuardCheck" => json!({"k":"Block","st":status_of(payload),"some":payload["at_least_one_matches"]}),
        "GuardClauseBlockCheck" => json!({"k":"Clause","st":status_of(payload)}),
        "ClauseValueCheck" => {
            let mut n = if let Some(s) = payload.as_str() {
                json!({"k":"Value","st":"PASS","vk":s})
            } else {
                let (vk, p) = payload.as_object().unwrap().iter().next().unwrap();
                let mut n = json!({"k":"Value","st":"FAIL","vk":vk});
                match vk.as_str() {
                    "Comparison" => {
                        n["from"] = qr(&p["from"], full);
                        if !p["to"].is_null() {
                            n["to"] = json!([qr(&p["to"], full)]);
                        } else {
                            n["to"] = json!([]);
                        }
                        n["nc"] = json!(!p["message"].is_null());
                    }
                    "InComparison" => {
                        n["from"] = qr(&p["from"], full);
                        n["to"] = J::Array(
                            p["to"].as_array().unwrap().iter().map(|t| qr(t, full)).collect(),
                        );
                    }
                    "Unary" => {
                        n["from"] = qr(&p["value"]["from"], full);
                        n["emsg"] = json!(!p["value"]["message"].is_null());
                    }
                    "MissingBlockValue" => {
                        n["from"] = qr(&p["from"], full);
                    }
                    "DependentRule" => {
                        n["rule"] = p["rule"].clone();
                    }
                    "NoValueForEmptyCheck" => {}
                    _ => {}
                }
                if let Some(cm) = p.get("custom_message").or_else(|| p.get("value").and_then(|v| v.get("custom_message"))) {
                    if let Some(s) = cm.as_str() {
                        n["msg"] = json!(s);
                    }
                }
                n
            };
            n["dep"] = json!(!kids.is_empty());
            n["ch"] = json!([]);
            return Some(n);
        }
        other => json!({"k":other,"st":"?"}),
    };
    for k in &kids {
        if let Some(p) = project(k, full) {
            children.push(p);
        }
    }
    node["ch"] = J::Array(children);
    Some(node)
}

/// Observed outcome of one library evaluation, in exchange format.
pub fn observe(rules: &str, data: &str, full: bool) -> J {
    match run_checks_raw(rules, data, true) {
        Err(p) => json!({"kind":"panic","msg":p}),
        Ok(Err(e)) => json!({"kind":"err","msg":e}),
        Ok(Ok(s)) => {
            if s.is_empty() {
                return json!({"kind":"empty"});
            }
            let rec: J = match serde_json::from_str(&s) {
                Ok(j) => j,
                Err(e) => return json!({"kind":"badjson","msg":e.to_string()}),
            };
            let tree = match project(&rec, full) {
                Some(t) => t,
                None => return json!({"kind":"badtree"}),
            };
            let rules: Vec<J> = tree["ch"]
                .as_array()
                .unwrap()
                .iter()
                .filter(|c| c["k"] == "Rule")
                .map(|c| json!([c["n"], c["st"]]))
                .collect();
            json!({"kind":"ok","file":tree["st"],"rules":rules,"tree":tree})
        }
    }
}

/// strip everything but kinds/statuses/shape (what C01/C02 compare); every node gets exactly
/// the fields k, st, n, vk, ch so that it equals the specification's node record
pub fn status_tree(n: &J) -> J {
    let name = if n["k"] == "Rule" || n["k"] == "TypeCheck" { n["n"].clone() } else { json!("") };
    let vk = if n["k"] == "Value" { n["vk"].clone() } else { json!("") };
    json!({"k": n["k"], "st": n["st"], "n": name, "vk": vk,
           "ch": J::Array(n["ch"].as_array().unwrap().iter().map(status_tree).collect())})
}

/// the complete status tree (Filter records and the children of value checks kept), nodes
/// [k, st, n, vk, ch]: what C02's Explain walks
pub fn raw_status_tree(rec: &J) -> Option<J> {
    let cont = rec.get("container")?;
    let (kind, payload) = cont.as_object()?.iter().next()?;
    let kids: Vec<J> = rec["children"].as_array().map(|a| a.iter().filter_map(raw_status_tree).collect()).unwrap_or_default();
    let (k, st, n, vk) = match kind.as_str() {
        "FileCheck" => ("File", status_of(payload), json!(""), json!("")),
        "RuleCheck" => ("Rule", status_of(payload), payload["name"].clone(), json!("")),
        "RuleCondition" => ("RuleCond", status_of(payload), json!(""), json!("")),
        "TypeCheck" => ("TypeCheck", status_of(payload), payload["type_name"].clone(), json!("")),
        "TypeCondition" => ("TypeCond", status_of(payload), json!(""), json!("")),
        "TypeBlock" => ("TypeBlock", status_of(payload), json!(""), json!("")),
        "Filter" => ("Filter", status_of(payload), json!(""), json!("")),
        "WhenCheck" => ("When", status_of(payload), json!(""), json!("")),
        "WhenCondition" => ("WhenCond", status_of(payload), json!(""), json!("")),
        "Disjunction" => ("Disj", status_of(payload), json!(""), json!("")),
        "BlockGuardCheck" => ("Block", status_of(payload), json!(""), json!("")),
        "GuardClauseBlockCheck" => ("Clause", status_of(payload), json!(""), json!("")),
        "ClauseValueCheck" => {
            if let Some(s) = payload.as_str() {
                ("Value", json!("PASS"), json!(""), json!(s))
            } else {
                let (vk, _) = payload.as_object()?.iter().next()?;
                ("Value", json!("FAIL"), json!(""), json!(vk))
            }
        }
        _ => ("?", json!("?"), json!(""), json!("")),
    };
    Some(json!({"k":k,"st":st,"n":n,"vk":vk,"ch":kids}))
}

/// like `observe`, plus obs.rtree (the raw status tree)
pub fn observe_with_rtree(rules: &str, data: &str) -> J {
    let mut obs = observe(rules, data, false);
    if obs["kind"] == "ok" {
        if let Ok(Ok(s)) = run_checks_raw(rules, data, true) {
            if let Ok(rec) = serde_json::from_str::<J>(&s) {
                if let Some(t) = raw_status_tree(&rec) {
                    obs["rtree"] = t;
                }
            }
        }
        let t = status_tree(&obs["tree"]);
        obs["tree"] = t;
    }
    obs
}

// ---------------------------------------------------------------- full tree / report (C09, C10)

fn node12(k: &str, st: J, n: J, vk: J, msg: J, ch: Vec<J>) -> J {
    json!({"k":k,"st":st,"n":n,"vk":vk,"msg":msg,"fq":"","fp":[],"fv":[],"tq":[],"tp":[],"tv":[],"ch":ch})
}

fn qr_parts(j: &J) -> (J, J, J, bool) {
    // (kind, path, [value], in_universe)
    if let Some(r) = j.get("Resolved").or_else(|| j.get("Literal")) {
        let kind = if j.get("Literal").is_some() { "lit" } else { "res" };
        let v = val::from_reported_json(&r["value"]);
        (json!(kind), val::path_segments(r["path"].as_str().unwrap_or("")), json!(v.iter().collect::<Vec<_>>()), v.is_some())
    } else if let Some(u) = j.get("UnResolved") {
        let t = &u["traversed_to"];
        let v = val::from_reported_json(&t["value"]);
        (json!("unres"), val::path_segments(t["path"].as_str().unwrap_or("")), json!(v.iter().collect::<Vec<_>>()), v.is_some())
    } else {
        (json!("?"), json!([]), json!([]), false)
    }
}

fn opt_str(j: &J) -> J {
    match j.as_str() {
        Some(s) => json!(s),
        None => json!(""),
    }
}

/// The record tree with the details of the value checks (12-field nodes, the shape of the
/// specification's nodes).  Filter records and the children of value checks are dropped.
/// Second result: false when some reported value falls outside the abstract universe.
pub fn full_tree(rec: &J, exact: &mut bool) -> Option<J> {
    let cont = rec.get("container")?;
    let (kind, payload) = cont.as_object()?.iter().next()?;
    if kind == "Filter" {
        return None;
    }
    if kind == "ClauseValueCheck" {
        if payload.as_str().is_some() {
            return Some(node12("Value", json!("PASS"), json!(""), json!("Success"), json!(""), vec![]));
        }
        let (vk, p) = payload.as_object()?.iter().next()?;
        let mut n = node12("Value", json!("FAIL"), json!(""), json!(vk), json!(""), vec![]);
        let mut set_from = |n: &mut J, from: &J, exact: &mut bool| {
            let (k, path, v, ok) = qr_parts(from);
            n["fq"] = k;
            n["fp"] = path;
            n["fv"] = v;
            *exact &= ok;
        };
        let mut tos: Vec<&J> = Vec::new();
        match vk.as_str() {
            "Comparison" => {
                set_from(&mut n, &p["from"], exact);
                if !p["to"].is_null() {
                    tos.push(&p["to"]);
                }
                n["msg"] = opt_str(&p["custom_message"]);
            }
            "InComparison" => {
                set_from(&mut n, &p["from"], exact);
                for t in p["to"].as_array()? {
                    tos.push(t);
                }
                n["msg"] = opt_str(&p["custom_message"]);
            }
            "Unary" => {
                set_from(&mut n, &p["value"]["from"], exact);
                n["msg"] = opt_str(&p["value"]["custom_message"]);
            }
            "MissingBlockValue" => {
                set_from(&mut n, &p["from"], exact);
                n["msg"] = opt_str(&p["custom_message"]);
            }
            "DependentRule" => {
                n["msg"] = opt_str(&p["custom_message"]);
            }
            "NoValueForEmptyCheck" => {
                n["msg"] = opt_str(p);
            }
            _ => {}
        }
        let mut tq = Vec::new();
        let mut tp = Vec::new();
        let mut tv = Vec::new();
        for t in tos {
            let (k, path, v, ok) = qr_parts(t);
            tq.push(if k == "unres" { json!("unres") } else { json!("res") });
            tp.push(path);
            tv.push(v.as_array().and_then(|a| a.first().cloned()).unwrap_or(json!({"t":"?"})));
            *exact &= ok;
        }
        n["tq"] = J::Array(tq);
        n["tp"] = J::Array(tp);
        n["tv"] = J::Array(tv);
        return Some(n);
    }
    let kids: Vec<J> = rec["children"].as_array().map(|a| a.iter().filter_map(|c| full_tree(c, exact)).collect()).unwrap_or_default();
    let (k, n, msg) = match kind.as_str() {
        "FileCheck" => ("File", json!(""), json!("")),
        "RuleCheck" => ("Rule", payload["name"].clone(), opt_str(&payload["message"])),
        "RuleCondition" => ("RuleCond", json!(""), json!("")),
        "TypeCheck" => ("TypeCheck", payload["type_name"].clone(), json!("")),
        "TypeCondition" => ("TypeCond", json!(""), json!("")),
        "TypeBlock" => ("TypeBlock", json!(""), json!("")),
        "WhenCheck" => ("When", json!(""), json!("")),
        "WhenCondition" => ("WhenCond", json!(""), json!("")),
        "Disjunction" => ("Disj", json!(""), json!("")),
        "BlockGuardCheck" => ("Block", json!(""), json!("")),
        "GuardClauseBlockCheck" => ("Clause", json!(""), json!("")),
        _ => ("?", json!(""), json!("")),
    };
    Some(node12(k, status_of(payload), n, json!(""), msg, kids))
}

fn item(k: &str, n: J, msg: J, ck: &str, fp: J, fv: J, tp: J, tv: J, ch: Vec<J>) -> J {
    json!({"k":k,"n":n,"msg":msg,"ck":ck,"fp":fp,"fv":fv,"tp":tp,"tv":tv,"ch":ch})
}

fn pv(j: &J, exact: &mut bool) -> (J, J) {
    let v = val::from_reported_json(&j["value"]);
    *exact &= v.is_some();
    (val::path_segments(j["path"].as_str().unwrap_or("")), json!(v.iter().collect::<Vec<_>>()))
}

/// FileReport JSON (run_checks verbose=false / validate --structured) -> abstract report
pub fn report_items(items: &J, exact: &mut bool) -> Vec<J> {
    let mut out = Vec::new();
    for it in items.as_array().map(|a| a.as_slice()).unwrap_or(&[]) {
        let (kind, p) = match it.as_object().and_then(|o| o.iter().next()) {
            Some(x) => x,
            None => continue,
        };
        match kind.as_str() {
            "Rule" => out.push(item("rule", p["name"].clone(), opt_str(&p["messages"]["custom_message"]), "", json!([]), json!([]), json!([]), json!([]), report_items(&p["checks"], exact))),
            "Disjunctions" => out.push(item("disj", json!(""), json!(""), "", json!([]), json!([]), json!([]), json!([]), report_items(&p["checks"], exact))),
            "Block" => {
                if p["unresolved"].is_null() {
                    out.push(item("block", json!(""), opt_str(&p["messages"]["custom_message"]), "none", json!([]), json!([]), json!([]), json!([]), vec![]));
                } else {
                    let (fp, fv) = pv(&p["unresolved"]["traversed_to"], exact);
                    out.push(item("block", json!(""), opt_str(&p["messages"]["custom_message"]), "unres", fp, fv, json!([]), json!([]), vec![]));
                }
            }
            "Clause" => {
                let (ub, c) = p.as_object().and_then(|o| o.iter().next()).unwrap();
                let msg = opt_str(&c["messages"]["custom_message"]);
                let (ck, body) = c["check"].as_object().and_then(|o| o.iter().next()).unwrap();
                match (ub.as_str(), ck.as_str()) {
                    ("Binary", "Resolved") => {
                        let (fp, fv) = pv(&body["from"], exact);
                        let (tp, tv) = pv(&body["to"], exact);
                        out.push(item("check", json!(""), msg, "cmp", fp, fv, json!([tp]), tv, vec![]));
                    }
                    ("Binary", "InResolved") => {
                        let (fp, fv) = pv(&body["from"], exact);
                        let mut tps = Vec::new();
                        let mut tvs = Vec::new();
                        for t in body["to"].as_array().unwrap() {
                            let (tp, tv) = pv(t, exact);
                            tps.push(tp);
                            tvs.push(tv.as_array().and_then(|a| a.first().cloned()).unwrap_or(json!({"t":"?"})));
                        }
                        out.push(item("check", json!(""), msg, "in", fp, fv, J::Array(tps), J::Array(tvs), vec![]));
                    }
                    (_, "UnResolved") => {
                        let (fp, fv) = pv(&body["value"]["traversed_to"], exact);
                        out.push(item("check", json!(""), msg, "unres", fp, fv, json!([]), json!([]), vec![]));
                    }
                    ("Unary", "Resolved") => {
                        let (fp, fv) = pv(&body["value"], exact);
                        out.push(item("check", json!(""), msg, "unary", fp, fv, json!([]), json!([]), vec![]));
                    }
                    (_, "UnResolvedContext") => out.push(item("check", json!(""), msg, "ctx", json!([]), json!([]), json!([]), json!([]), vec![])),
                    _ => out.push(item("?", json!(""), msg, "?", json!([]), json!([]), json!([]), json!([]), vec![])),
                }
            }
            _ => out.push(item("?", json!(""), json!(""), "?", json!([]), json!([]), json!([]), json!([]), vec![])),
        }
    }
    out
}

/// observation for C09/C10: status tree + full tree + the structured report of the same inputs
pub fn observe_full(rules: &str, data: &str) -> J {
    let mut obs = observe(rules, data, false);
    if obs["kind"] != "ok" {
        return obs;
    }
    let t = status_tree(&obs["tree"]);
    obs["tree"] = t;
    let mut exact = true;
    if let Ok(Ok(s)) = run_checks_raw(rules, data, true) {
        if let Ok(rec) = serde_json::from_str::<J>(&s) {
            if let Some(t) = full_tree(&rec, &mut exact) {
                obs["ftree"] = t;
            }
        }
    }
    match run_checks_raw(rules, data, false) {
        Err(p) => obs["report"] = json!({"kind":"panic","msg":p}),
        Ok(Err(e)) => obs["report"] = json!({"kind":"err","msg":e}),
        Ok(Ok(s)) => match serde_json::from_str::<J>(&s) {
            Err(e) => obs["report"] = json!({"kind":"badjson","msg":e.to_string(),"len":s.len()}),
            Ok(j) => {
                let nc = report_items(&j["not_compliant"], &mut exact);
                obs["report"] = json!({"kind":"ok","status":j["status"],"compliant":j["compliant"],
                                        "na":j["not_applicable"],"nc":nc});
            }
        },
    }
    obs["exact"] = json!(exact);
    obs
}

// ---------------------------------------------------------------- parse-tree (C14)

fn strip_locations(j: &mut J) {
    match j {
        J::Object(m) => {
            m.remove("location");
            for v in m.values_mut() {
                strip_locations(v);
            }
        }
        J::Array(a) => {
            for v in a {
                strip_locations(v);
            }
        }
        _ => {}
    }
}

/// any cfn-guard command line executed in-process: "<code>:<stdout>" or an error / panic marker
pub fn cli_in_process(args: &[&str], stdin: &str) -> String {
    use clap::Parser;
    let mut full = vec!["cfn-guard"];
    full.extend_from_slice(args);
    let r = catch_unwind(AssertUnwindSafe(|| {
        let cmd = cfn_guard::commands::CfnGuard::try_parse_from(full).map_err(|e| format!("args: {}", e))?;
        let mut w = cfn_guard::utils::writer::Writer::new_with_err(
            cfn_guard::utils::writer::WriteBuffer::Vec(vec![]),
            cfn_guard::utils::writer::WriteBuffer::Vec(vec![]),
        )
        .map_err(|e| e.to_string())?;
        let mut rd = cfn_guard::utils::reader::Reader::new(cfn_guard::utils::reader::ReadBuffer::Cursor(
            std::io::Cursor::new(stdin.as_bytes().to_vec()),
        ));
        match cmd.execute(&mut w, &mut rd) {
            Ok(code) => Ok(format!("{}:{}", code, w.into_string().map_err(|e| e.to_string())?)),
            Err(e) => Err(format!("{}", e)),
        }
    }));
    match r {
        Err(p) => format!("panic:{}", panic_msg(p)),
        Ok(Err(e)) => format!("err:{}", e),
        Ok(Ok(s)) => s,
    }
}

/// alias: the command line in-process with a rules text on stdin
pub fn cli_in_process_stdin(args: &[&str], stdin: &str) -> String {
    cli_in_process(args, stdin)
}

/// `parse-tree --print-json` output as text (locations included), or an error / panic marker
pub fn parse_tree_text(rules: &str) -> String {
    use clap::Parser;
    let r = catch_unwind(AssertUnwindSafe(|| {
        let cmd = cfn_guard::commands::CfnGuard::try_parse_from(["cfn-guard", "parse-tree", "--print-json"]).map_err(|e| format!("args: {}", e))?;
        let mut w = cfn_guard::utils::writer::Writer::new_with_err(
            cfn_guard::utils::writer::WriteBuffer::Vec(vec![]),
            cfn_guard::utils::writer::WriteBuffer::Vec(vec![]),
        )
        .map_err(|e| e.to_string())?;
        let mut rd = cfn_guard::utils::reader::Reader::new(cfn_guard::utils::reader::ReadBuffer::Cursor(
            std::io::Cursor::new(rules.as_bytes().to_vec()),
        ));
        match cmd.execute(&mut w, &mut rd) {
            Ok(code) => Ok(format!("{}:{}", code, w.into_string().map_err(|e| e.to_string())?)),
            Err(e) => Err(format!("{}", e)),
        }
    }));
    match r {
        Err(p) => format!("panic:{}", panic_msg(p)),
        Ok(Err(e)) => format!("err:{}", e),
        Ok(Ok(s)) => s,
    }
}

/// the parse tree with an explicit leading `this` of a longer query removed
/// (`this.a.b` and `a.b`: the part stands for the current scope and selects nothing)
pub fn strip_leading_this(j: &mut J) {
    match j {
        J::Object(m) => {
            if let Some(J::Array(q)) = m.get_mut("query") {
                if q.len() > 1 && q[0] == json!("This") {
                    q.remove(0);
                }
            }
            for v in m.values_mut() {
                strip_leading_this(v);
            }
        }
        J::Array(a) => {
            for v in a {
                strip_leading_this(v);
            }
        }
        _ => {}
    }
}

/// `cfn-guard parse-tree --print-json` run in-process on a rules text: the AST with locations
/// removed, or an error / panic marker
pub fn parse_tree(rules: &str) -> J {
    use clap::Parser;
    let r = catch_unwind(AssertUnwindSafe(|| {
        let cmd = cfn_guard::commands::CfnGuard::try_parse_from(["cfn-guard", "parse-tree", "--print-json"]);
        let cmd = match cmd {
            Ok(c) => c,
            Err(e) => return Err(format!("args: {}", e)),
        };
        let mut w = cfn_guard::utils::writer::Writer::new_with_err(
            cfn_guard::utils::writer::WriteBuffer::Vec(vec![]),
            cfn_guard::utils::writer::WriteBuffer::Vec(vec![]),
        )
        .map_err(|e| e.to_string())?;
        let mut rd = cfn_guard::utils::reader::Reader::new(cfn_guard::utils::reader::ReadBuffer::Cursor(
            std::io::Cursor::new(rules.as_bytes().to_vec()),
        ));
        match cmd.execute(&mut w, &mut rd) {
            Ok(code) => {
                let out = w.into_string().map_err(|e| e.to_string())?;
                Ok((code, out))
            }
            Err(e) => Err(format!("{}", e)),
        }
    }));
    match r {
        Err(p) => json!({"kind":"panic","msg":panic_msg(p)}),
        Ok(Err(e)) => json!({"kind":"err","msg":e}),
        Ok(Ok((code, out))) => match serde_json::from_str::<J>(&out) {
            Ok(mut j) => {
                strip_locations(&mut j);
                json!({"kind":"ok","code":code,"ast":j})
            }
            Err(e) => json!({"kind":"badjson","msg":e.to_string(),"head":out.chars().take(200).collect::<String>()}),
        },
    }
}
