//! Driving the real implementation and projecting what it returns into the exchange format.
use crate::val;
use serde_json::{json, Value as J};
use std::panic::{catch_unwind, AssertUnwindSafe};

pub fn install_quiet_panic_hook() {
    std::panic::set_hook(Box::new(|_| {}));
}

fn panic_msg(e: Box<dyn std::any::Any + Send>) -> String {
    if let Some(s) = e.downcast_ref::<&str>() {
        s.to_string()
    } else if let Some(s) = e.downcast_ref::<String>() {
        s.clone()
    } else {
        "panic".to_string()
    }
}

/// raw library call: Ok(Ok(text)) | Ok(Err(error text)) | Err(panic text)
pub fn run_checks_raw(rules: &str, data: &str, verbose: bool) -> Result<Result<String, String>, String> {
    let r = catch_unwind(AssertUnwindSafe(|| {
        cfn_guard::run_checks(
            cfn_guard::ValidateInput { content: data, file_name: "d.json" },
            cfn_guard::ValidateInput { content: rules, file_name: "r.guard" },
            verbose,
        )
    }));
    match r {
        Ok(Ok(s)) => Ok(Ok(s)),
        Ok(Err(e)) => Ok(Err(format!("{}", e))),
        Err(p) => Err(panic_msg(p)),
    }
}

fn status_of(c: &J) -> J {
    // container payloads: {"status":..} | plain status string | {"block":{"status"}}
    if let Some(s) = c.as_str() {
        return json!(s);
    }
    if let Some(s) = c.get("status") {
        return s.clone();
    }
    if let Some(b) = c.get("block") {
        return b["status"].clone();
    }
    json!("?")
}

fn qr(j: &J, full: bool) -> J {
    // QueryResult serialisation: {"Resolved":{"path","value"}} | {"UnResolved":{"traversed_to":{path,value},"remaining_query","reason"}} | {"Literal":..}
    if let Some(r) = j.get("Resolved").or_else(|| j.get("Literal")) {
        let mut o = json!({"q": if j.get("Literal").is_some() {"lit"} else {"res"},
                           "path": val::path_segments(r["path"].as_str().unwrap_or(""))});
        if full {
            if let Some(v) = val::from_json(&r["value"]) {
                o["val"] = v;
            }
        }
        o
    } else if let Some(u) = j.get("UnResolved") {
        let t = &u["traversed_to"];
        let mut o = json!({"q":"unres",
                           "path": val::path_segments(t["path"].as_str().unwrap_or("")),
                           "rem": u["remaining_query"].clone()});
        if full {
            if let Some(v) = val::from_json(&t["value"]) {
                o["val"] = v;
            }
        }
        o
    } else {
        json!({"q":"?"})
    }
}

/// EventRecord JSON -> projected node.  Filter subtrees are dropped (they are not read by the
/// report builder and the specification does not emit them); children of a value check (the
/// RuleCheck of a named rule evaluated at that point) are dropped as well, flagged by `dep`.
pub fn project(rec: &J, full: bool) -> Option<J> {
    let cont = rec.get("container")?;
    let (kind, payload) = if let Some(o) = cont.as_object() {
        let (k, v) = o.iter().next()?;
        (k.as_str(), v)
    } else {
        return None;
    };
    let mut children: Vec<J> = Vec::new();
    let kids = rec["children"].as_array().cloned().unwrap_or_default();
    let mut node = match kind {
        "FileCheck" => json!({"k":"File","st":status_of(payload),"n":payload["name"]}),
        "RuleCheck" => json!({"k":"Rule","st":status_of(payload),"n":payload["name"]}),
        "RuleCondition" => json!({"k":"RuleCond","st":status_of(payload)}),
        "TypeCheck" => json!({"k":"TypeCheck","st":status_of(payload),"n":payload["type_name"]}),
        "TypeCondition" => json!({"k":"TypeCond","st":status_of(payload)}),
        "TypeBlock" => json!({"k":"TypeBlock","st":status_of(payload)}),
        "Filter" => return None,
        "WhenCheck" => json!({"k":"When","st":status_of(payload)}),
        "WhenCondition" => json!({"k":"WhenCond","st":status_of(payload)}),
        "Disjunction" => json!({"k":"Disj","st":status_of(payload)}),
        "BlockGuardCheck" => json!({"k":"Block","st":status_of(payload),"some":payload["at_least_one_matches"]}),
        "GuardClauseBlockCheck" => json!({"k":"Clause","st":status_of(payload)}),
        "ClauseValueCheck" => {
            let mut n = if let Some(s) = payload.as_str() {
                json!({"k":"Value","st":"PASS","vk":s})
            } else {
                let (vk, p) = payload.as_object().unwrap().iter().next().unwrap();
                let mut n = json!({"k":"Value","st":"FAIL","vk":vk});
                match vk.as_str() {
                    "Comparison" => {
                        n["from"] = qr(&p["from"], full);
                        if !p["to"].is_null() {
                            n["to"] = json!([qr(&p["to"], full)]);
                        } else {
                            n["to"] = json!([]);
                        }
                        n["nc"] = json!(!p["message"].is_null());
                    }
                    "InComparison" => {
                        n["from"] = qr(&p["from"], full);
                        n["to"] = J::Array(
                            p["to"].as_array().unwrap().iter().map(|t| qr(t, full)).collect(),
                        );
                    }
                    "Unary" => {
                        n["from"] = qr(&p["value"]["from"], full);
                        n["emsg"] = json!(!p["value"]["message"].is_null());
                    }
                    "MissingBlockValue" => {
                        n["from"] = qr(&p["from"], full);
                    }
                    "DependentRule" => {
                        n["rule"] = p["rule"].clone();
                    }
                    "NoValueForEmptyCheck" => {}
                    _ => {}
                }
                if let Some(cm) = p.get("custom_message").or_else(|| p.get("value").and_then(|v| v.get("custom_message"))) {
                    if let Some(s) = cm.as_str() {
                        n["msg"] = json!(s);
                    }
                }
                n
            };
            n["dep"] = json!(!kids.is_empty());
            n["ch"] = json!([]);
            return Some(n);
        }
        other => json!({"k":other,"st":"?"}),
    };
    for k in &kids {
        if let Some(p) = project(k, full) {
            children.push(p);
        }
    }
    node["ch"] = J::Array(children);
    Some(node)
}

/// Observed outcome of one library evaluation, in exchange format.
pub fn observe(rules: &str, data: &str, full: bool) -> J {
    match run_checks_raw(rules, data, true) {
        Err(p) => json!({"kind":"panic","msg":p}),
        Ok(Err(e)) => json!({"kind":"err","msg":e}),
        Ok(Ok(s)) => {
            if s.is_empty() {
                return json!({"kind":"empty"});
            }
            let rec: J = match serde_json::from_str(&s) {
                Ok(j) => j,
                Err(e) => return json!({"kind":"badjson","msg":e.to_string()}),
            };
            let tree = match project(&rec, full) {
                Some(t) => t,
                None => return json!({"kind":"badtree"}),
            };
            let rules: Vec<J> = tree["ch"]
                .as_array()
                .unwrap()
                .iter()
                .filter(|c| c["k"] == "Rule")
                .map(|c| json!([c["n"], c["st"]]))
                .collect();
            json!({"kind":"ok","file":tree["st"],"rules":rules,"tree":tree})
        }
    }
}

/// strip everything but kinds/statuses/shape (what C01/C02 compare); every node gets exactly
/// the fields k, st, n, vk, ch so that it equals the specification's node record
pub fn status_tree(n: &J) -> J {
    let name = if n["k"] == "Rule" || n["k"] == "TypeCheck" { n["n"].clone() } else { json!("") };
    let vk = if n["k"] == "Value" { n["vk"].clone() } else { json!("") };
    json!({"k": n["k"], "st": n["st"], "n": name, "vk": vk,
           "ch": J::Array(n["ch"].as_array().unwrap().iter().map(status_tree).collect())})
}

/// the complete status tree (Filter records and the children of value checks kept), nodes
/// [k, st, n, vk, ch]: what C02's Explain walks
pub fn raw_status_tree(rec: &J) -> Option<J> {
    let cont = rec.get("container")?;
    let (kind, payload) = cont.as_object()?.iter().next()?;
    let kids: Vec<J> = rec["children"].as_array().map(|a| a.iter().filter_map(raw_status_tree).collect()).unwrap_or_default();
    let (k, st, n, vk) = match kind.as_str() {
        "FileCheck" => ("File", status_of(payload), json!(""), json!("")),
        "RuleCheck" => ("Rule", status_of(payload), payload["name"].clone(), json!("")),
        "RuleCondition" => ("RuleCond", status_of(payload), json!(""), json!("")),
        "TypeCheck" => ("TypeCheck", status_of(payload), payload["type_name"].clone(), json!("")),
        "TypeCondition" => ("TypeCond", status_of(payload), json!(""), json!("")),
        "TypeBlock" => ("TypeBlock", status_of(payload), json!(""), json!("")),
        "Filter" => ("Filter", status_of(payload), json!(""), json!("")),
        "WhenCheck" => ("When", status_of(payload), json!(""), json!("")),
        "WhenCondition" => ("WhenCond", status_of(payload), json!(""), json!("")),
        "Disjunction" => ("Disj", status_of(payload), json!(""), json!("")),
        "BlockGuardCheck" => ("Block", status_of(payload), json!(""), json!("")),
        "GuardClauseBlockCheck" => ("Clause", status_of(payload), json!(""), json!("")),
        "ClauseValueCheck" => {
            if let Some(s) = payload.as_str() {
                ("Value", json!("PASS"), json!(""), json!(s))
            } else {
                let (vk, _) = payload.as_object()?.iter().next()?;
                ("Value", json!("FAIL"), json!(""), json!(vk))
            }
        }
        _ => ("?", json!("?"), json!(""), json!("")),
    };
    Some(json!({"k":k,"st":st,"n":n,"vk":vk,"ch":kids}))
}

/// like `observe`, plus obs.rtree (the raw status tree)
pub fn observe_with_rtree(rules: &str, data: &str) -> J {
    let mut obs = observe(rules, data, false);
    if obs["kind"] == "ok" {
        if let Ok(Ok(s)) = run_checks_raw(rules, data, true) {
            if let Ok(rec) = serde_json::from_str::<J>(&s) {
                if let Some(t) = raw_status_tree(&rec) {
                    obs["rtree"] = t;
                }
            }
        }
        let t = status_tree(&obs["tree"]);
        obs["tree"] = t;
    }
    obs
}
