//! C08: inputs for the crash-freedom check.  A case is a function of (seed, index): a rules
//! text, a data text and a template text, produced by one of the case kinds below.  Nothing is
//! judged here; the worker (gv fuzz-worker) runs the library entry points on the case and logs
//! what came back.
use crate::gen;
use crate::render;
use crate::rng::Rng;
use crate::rulegen::TGen;
use crate::val;
use serde_json::{json, Value as J};

pub const KINDS: [&str; 10] = ["valid", "cycle", "mut-rules", "mut-data", "adversarial", "mut-template", "deep", "mut-both", "adv-yaml", "known-invalid"];

/// hand-written shapes the parser accepts and the evaluator has few tests for
const ADVERSARIAL: [&str; 55] = [
    "let x = \"lit\"\nrule r { %x !empty }",
    "let x = [1, 2]\nrule r { %x exists\n %x is_list }",
    "let x = 5\nrule r { %x == 5\n %x is_int\n %x empty }",
    "rule r { this[ a == 1 ][ b == 2 ] exists }",
    "rule r { this[0][ a exists ] exists }",
    "rule r { a[ keys == /x/ ][ b exists ] empty }",
    "rule r { this[ a exists ] exists }",
    "rule r { a.b[ c == 1 ][ d == 2 ][ e == 3 ] !empty }",
    "rule r { this.*[ a exists ][ b exists ] exists }",
    "rule r { a[*][ b exists ][ c exists ] exists }",
    "rule r { this[ keys == \"a\" ][ keys == \"b\" ] exists }",
    "rule r { a[ keys in [\"b\", \"c\"] ].*[ d exists ] exists }",
    "let s = substring(\"héllo wörld\", 1, 2)\nrule r { %s exists }",
    "let s = substring(a, 1, 3)\nrule r { %s == \"é\" }",
    "let s = substring(a, 3, 1)\nrule r { %s exists }",
    "let s = substring(a, 0, 400)\nrule r { %s exists }",
    "let s = substring(a, -1, 2)\nrule r { %s exists }",
    "let s = regex_replace(a, \"(\", \"x\")\nrule r { %s exists }",
    "let s = regex_replace(a, \"^(\\w+)$\", \"${2}\")\nrule r { %s exists }",
    "let s = regex_replace(b, \"a\", \"b\")\nrule r { %s exists }",
    "let s = join(a, \",\")\nrule r { %s exists }",
    "let s = join(b, c)\nrule r { %s exists }",
    "let s = join(missing, \",\")\nrule r { %s exists }",
    "let s = count(missing)\nrule r { %s == 0 }",
    "let s = json_parse(a)\nrule r { %s exists }",
    "let s = json_parse(b)\nrule r { %s.x exists }",
    "let s = parse_int(a)\nrule r { %s > 0 }",
    "let s = parse_float(b)\nrule r { %s > 0.0 }",
    "let s = parse_char(a)\nrule r { %s exists }",
    "let s = parse_boolean(a)\nrule r { %s == true }",
    "let s = url_decode(a)\nrule r { %s exists }",
    "let s = to_upper(b)\nrule r { %s exists }",
    "let s = regex_replace(missing, \"a\", \"b\")\nrule r { %s exists }",
    "let s = substring(missing, 0, 1)\nrule r { %s exists }",
    "rule p(x) { %x exists }\nrule r { p(a)\n p(missing)\n p(\"lit\") }",
    "rule p(x, y) { %x == %y }\nrule r { p(a) }",
    "rule r { a in r[1, 5]\n a in r(1.0, 5.0)\n a == /(/ }",
    "rule r { a[ b == %c ] exists }",
    "rule r { %undefined exists }",
    "rule r { a.%undefined exists\n a.%a exists }",
    "let s = join(a, b[ x == 5 ])\nrule r { %s exists }",
    "let s = join(b, c[ keys == \"zz\" ])\nrule r { %s exists }",
    "let s = substring(a, b[ x == 5 ], 2)\nrule r { %s exists }",
    "let s = substring(a, 0, b[ x == 5 ])\nrule r { %s exists }",
    "let s = regex_replace(a, b[ x == 5 ], \"y\")\nrule r { %s exists }",
    "let s = regex_replace(a, \"y\", a[ x == 5 ])\nrule r { %s exists }",
    "let x = %x\nrule r { %x exists }",
    "let a1 = %b1\nlet b1 = %a1.c\nrule r { %a1 exists }",
    "rule r {\n  let v = %v\n  %v exists\n}",
    "let c = count(%c)\nrule r { %c == 0 }",
    // clauses outside any rule: the default rule
    "a exists\nb == 1 <<b must be one>>",
    "a == \"no such value\"\nc.d exists",
    "AWS::S3::Bucket {\n  Properties.nope exists\n}\nResources exists",
    "when a exists {\n  b == \"nope\"\n}\nzz exists or a == 7",
    "let x = a\n%x == \"never\"\nrule named { b exists }",
];

const ADV_DOCS: [&str; 10] = [
    "{}",
    "{\"a\":\"héllo\",\"b\":[1,\"x\",null],\"c\":{\"d\":1}}",
    "{\"a\":{\"b\":{\"c\":1,\"d\":2,\"e\":3},\"x\":1},\"b\":{\"a\":1}}",
    "{\"a\":[{\"b\":1,\"c\":2},{\"b\":{\"c\":1}},3],\"b\":\"a\"}",
    "[1,2,{\"a\":1}]",
    "\"just a string\"",
    "{\"a\":\"12\",\"b\":\"1.5\",\"c\":\"-\"}",
    "{\"a\":\"{\\\"x\\\":1}\",\"b\":\"[1,2\",\"c\":[]}",
    "{\"a\":\"日本語のテキスト\",\"b\":\"😀😀😀\"}",
    "{\"a\":null,\"b\":true,\"c\":1.5e300}",
];

/// YAML the loaders have few tests for (data files, parameter files, test inputs, templates)
const ADV_YAML: [&str; 34] = [
    "# only a comment\n",
    "\n\n",
    "---\n",
    "---\n...\n",
    "--- \n# c\n",
    "a: 1\n---\nb: 2\n",
    "a: !Cidr [1, 2]\n",
    "a: !MyTag\n  - 1\n  - 2\n",
    "a: ! [1, 2]\n",
    "a: !Unknown {k: v}\n",
    "a: !Unknown scalar\n",
    "a: !!seq [1]\nb: !!map {k: v}\nc: !!str 5\nd: !!int '7'\n",
    "a: !<tag:yaml.org,2002:str> x\n",
    "a: &x [1, 2]\nb: *x\nc: *x\n",
    "a: &x {k: 1}\nb:\n  <<: *x\n  j: 2\n",
    "a: *undefined\n",
    "a: &x\n  b: *x\n",
    "? [complex, key]\n: value\n",
    "? {k: v}\n: 1\n",
    "1: a\ntrue: b\nnull: c\n1.5: d\n",
    "a: |\n  line1\n  line2\nb: >-\n  folded\n  text\nc: |+\n\n",
    "a:\t1\n",
    "\ta: 1\n",
    "a: [1, 2\n",
    "a: {k: v\n",
    "a: 'unterminated\n",
    "a: \"bad \\x escape\"\n",
    "a: 1\na: 2\n",
    "Resources:\n  r:\n    Type: !Ref T\n    Properties: !GetAtt [a, b, c]\n",
    "a: !Sub\n  - '${x}'\n  - {x: 1}\nb: !Join [',', [a, b]]\nc: !GetAtt a.b.c\nd: !If [c, 1, 2]\n",
    "a: !Ref\n",
    "a: !GetAtt\n",
    "\u{feff}a: 1\n",
    "- 1\n- [2, [3, [4, [5]]]]\n- {a: {b: {c: {d: 1}}}}\n",
];

/// tails that make any rules text invalid (unbalanced braces, an operator without operand, an
/// unterminated string, a token the grammar does not have)
const INVALID_TAILS: [&str; 8] = [
    "\n}\n",
    "\n;;\n",
    "\nrule zz {\n",
    "\nrule zz { a == }\n",
    "\nrule zz { a == \"abc }\n",
    "\nrule zz { a exists } }\n",
    "\nrule { a exists }\n",
    "\nrule zz when { a exists }\n",
];
const HEADERS: [&str; 5] = ["", "\n\n\n", "# header comment\n# second line of it\n\n", "   \n\t\n# c\n", "#\n"];

const UNI: [&str; 8] = ["é", "日本", "😀", "\u{200b}", "\u{feff}", "ß", "\u{0}", "\t"];
const TOKENS: [&str; 24] = [
    "{", "}", "[", "]", "<<", ">>", "or", "when", "rule ", "let ", "%", "==", "!=", "!", "not ", "\"", "'", "/", "#", "some ", "keys", "this", ".*", "\n",
];

fn char_pos(s: &str, r: &mut Rng) -> usize {
    if s.is_empty() {
        return 0;
    }
    let mut p = r.below(s.len() + 1);
    while p < s.len() && !s.is_char_boundary(p) {
        p += 1;
    }
    p
}

/// truncation, deletion, duplication, splice, unicode / token insertion (1-3 operations)
pub fn mutate_text(s: &str, other: &str, r: &mut Rng) -> String {
    let mut t = s.to_string();
    for _ in 0..1 + r.below(3) {
        match r.below(7) {
            0 => {
                let p = char_pos(&t, r);
                t.truncate(p);
            }
            1 => {
                let a = char_pos(&t, r);
                let b = char_pos(&t, r);
                let (a, b) = if a <= b { (a, b) } else { (b, a) };
                let b = b.min(a + 12);
                let b = (b..=t.len()).find(|x| t.is_char_boundary(*x)).unwrap_or(t.len());
                t.replace_range(a..b, "");
            }
            2 => {
                let a = char_pos(&t, r);
                let b = char_pos(&t, r);
                let (a, b) = if a <= b { (a, b) } else { (b, a) };
                let piece = t[a..b].to_string();
                let p = char_pos(&t, r);
                t.insert_str(p, &piece);
            }
            3 => {
                let a = char_pos(other, r);
                let b = char_pos(other, r);
                let (a, b) = if a <= b { (a, b) } else { (b, a) };
                let p = char_pos(&t, r);
                t.insert_str(p, &other[a..b]);
            }
            4 => {
                let p = char_pos(&t, r);
                t.insert_str(p, UNI[r.below(UNI.len())]);
            }
            5 => {
                let p = char_pos(&t, r);
                t.insert_str(p, TOKENS[r.below(TOKENS.len())]);
            }
            _ => {
                // replace one character
                let p = char_pos(&t, r);
                if p < t.len() {
                    let q = (p + 1..=t.len()).find(|x| t.is_char_boundary(*x)).unwrap_or(t.len());
                    t.replace_range(p..q, TOKENS[r.below(TOKENS.len())]);
                }
            }
        }
    }
    t
}

fn inject_cycle(prog: &mut J, r: &mut Rng) {
    let names: Vec<String> = prog["rules"].as_array().unwrap().iter().map(|x| x["n"].as_str().unwrap().to_string()).collect();
    let n = names.len();
    let i = r.below(n);
    let j = if r.chance(1, 2) { i } else { r.below(n) };
    // rule i refers to rule j and rule j to rule i (i = j: a rule that names itself), as a
    // clause or as a when condition
    let named = |n: &str| json!({"c":"named","n":n,"neg":false});
    if r.chance(1, 2) {
        prog["rules"][i]["b"].as_array_mut().unwrap().insert(0, json!([named(&names[j])]));
    } else {
        prog["rules"][i]["w"].as_array_mut().unwrap().insert(0, json!([named(&names[j])]));
    }
    if i != j {
        prog["rules"][j]["b"].as_array_mut().unwrap().push(json!([named(&names[i])]));
    }
}

fn deep_json(depth: usize, list: bool) -> String {
    let mut s = String::new();
    for _ in 0..depth {
        s.push_str(if list { "[" } else { "{\"a\":" });
    }
    s.push('1');
    for _ in 0..depth {
        s.push_str(if list { "]" } else { "}" });
    }
    s
}

pub struct Case {
    pub kind: &'static str,
    /// the rules text is invalid whatever parser looks at it
    pub known_invalid: bool,
    pub rules: String,
    pub data: String,
    pub template: String,
}

pub fn case(seed: u64, i: usize) -> Case {
    let mut r = Rng::new(seed.wrapping_mul(0x9E37_79B9).wrapping_add(i as u64 * 7919 + 13));
    let kind = KINDS[i % KINDS.len()];
    let cfg = match r.below(3) {
        0 => gen::Cfg::core(),
        1 => gen::Cfg::full(),
        _ => gen::Cfg::functions(),
    };
    let (doc, mut prog) = {
        let mut g = gen::Gen { r: &mut r, cfg };
        let doc = g.doc();
        let prog = g.program(&doc);
        (doc, prog)
    };
    let (doc2, prog2) = {
        let mut g = gen::Gen { r: &mut r, cfg: gen::Cfg::full() };
        let d = g.doc();
        let p = g.program(&d);
        (d, p)
    };
    let template = {
        let mut g = TGen { r: &mut r, hard: true };
        val::to_json_text(&g.template(false))
    };
    let mut rules = render::render_file(&prog);
    let mut data = val::to_json_text(&doc);
    let rules2 = render::render_file(&prog2);
    let data2 = val::to_json_text(&doc2);
    let mut template = template;
    let mut known_invalid = false;
    match kind {
        "cycle" => {
            inject_cycle(&mut prog, &mut r);
            rules = render::render_file(&prog);
        }
        "mut-rules" => rules = mutate_text(&rules, &rules2, &mut r),
        "mut-data" => data = mutate_text(&data, &data2, &mut r),
        "mut-both" => {
            rules = mutate_text(&rules, &data, &mut r);
            data = mutate_text(&data, &rules2, &mut r);
        }
        "adversarial" => {
            rules = ADVERSARIAL[r.below(ADVERSARIAL.len())].to_string();
            if r.chance(1, 3) {
                rules = format!("{}\n{}", rules, ADVERSARIAL[r.below(ADVERSARIAL.len())].replace("rule r ", "rule r2 ").replace("rule p(", "rule p2(").replace(" p(", " p2(").replace("let s ", "let s2 ").replace("%s", "%s2").replace("let x ", "let x2 ").replace("%x", "%x2"));
            }
            if r.chance(2, 3) {
                data = ADV_DOCS[r.below(ADV_DOCS.len())].to_string();
            }
        }
        "mut-template" => template = mutate_text(&template, &data, &mut r),
        "adv-yaml" => {
            data = ADV_YAML[r.below(ADV_YAML.len())].to_string();
            if r.chance(1, 3) {
                data.push_str(ADV_YAML[r.below(ADV_YAML.len())]);
            }
            template = format!("Resources:\n  r:\n    Type: T::U\n    Properties:\n      p: 1\n{}", ADV_YAML[r.below(ADV_YAML.len())]);
            if r.chance(1, 2) {
                rules = "rule r { a exists }\nrule s { this exists }\n".to_string();
            }
        }
        "known-invalid" => {
            // a valid text (sometimes with a comment / blank header) followed by a tail that no
            // grammar accepts; the tail sometimes followed by more valid text
            let base = if r.chance(1, 2) { rules.clone() } else { "rule first { a exists }\nrule second { b exists }\n".to_string() };
            let tail = INVALID_TAILS[r.below(INVALID_TAILS.len())];
            let more = if r.chance(1, 3) { "rule last { c exists }\n" } else { "" };
            rules = format!("{}{}{}{}", HEADERS[r.below(HEADERS.len())], base, tail, more);
            if r.chance(1, 3) {
                // the error comes early and a long run of multi-byte characters follows it (diagnostics
                // quote what follows the error position)
                let pad = " ".repeat(r.below(4));
                let wide = ["日", "é", "😀"][r.below(3)];
                rules = format!("{}rule {{ a exists }}\n{}# {}\nrule ok {{ a == \"{}\" }}\n{}",
                                HEADERS[r.below(HEADERS.len())], pad, wide.repeat(90 + r.below(40)), wide.repeat(60), base);
            }
            known_invalid = true;
        }
        "deep" => {
            // nesting depth bounded (the property's proviso): up to 60 levels
            let d = 5 + r.below(56);
            data = deep_json(d, r.chance(1, 2));
            template = format!("{{\"Resources\":{{\"a\":{{\"Type\":\"T::U\",\"Properties\":{{\"p\":{}}}}}}}}}", deep_json(d.min(40), r.chance(1, 2)));
        }
        _ => {}
    }
    Case { kind, known_invalid, rules, data, template }
}
