//! spec -> impl replay of the exhaustive single-clause space enumerated by spec/MC_E1.tla
use crate::{exec, render, val};
use serde_json::{json, Value as J};

fn has_op_not(op: &str) -> bool {
    !matches!(op, "lt" | "le" | "gt" | "ge")
}

pub fn clause(tables: &J, c: &J, neg: bool, on: bool) -> J {
    let qi = c["q"].as_u64().unwrap() as usize - 1;
    let oi = c["o"].as_u64().unwrap() as usize - 1;
    let opr = &tables["oprhs"][oi];
    let op = opr[0].as_str().unwrap();
    let ri = opr[1].as_u64().unwrap() as usize;
    let rhs = if ri == 0 { json!([]) } else { json!([tables["rhs"][ri - 1]]) };
    json!({"c":"gac","q":tables["queries"][qi],"all":c["all"],"neg":neg,"op":op,"on":on,"rhs":rhs})
}

pub fn program(cl: J) -> J {
    json!({"lets":[],"prules":[],"rules":[{"n":"r","w":[],"lets":[],"b":[[cl]]}]})
}

/// observed outcome in the shape the specification prints: {"st":..,"m":..}
pub fn outcome(prog: &J, doc: &J) -> J {
    let rules = render::render_file(prog);
    let data = val::to_json_text(doc);
    let obs = exec::observe(&rules, &data, false);
    match obs["kind"].as_str().unwrap() {
        "ok" => {
            let rule = &obs["tree"]["ch"][0];
            let cl = &rule["ch"][0];
            let marks: String = cl["ch"]
                .as_array()
                .map(|a| {
                    a.iter()
                        .filter(|v| v["k"] == "Value")
                        .map(|v| if v["st"] == "PASS" { 'P' } else { 'F' })
                        .collect()
                })
                .unwrap_or_default();
            json!({"st": rule["st"], "m": marks, "clause_children_ok": cl["ch"].as_array().map(|a| a.iter().all(|v| v["k"] == "Value")).unwrap_or(true)})
        }
        "err" => json!({"st":"ERR","m":obs["msg"]}),
        "panic" => json!({"st":"PANIC","m":obs["msg"]}),
        other => json!({"st":other,"m":""}),
    }
}

/// returns (evaluations, direct relation checks, mismatches)
pub fn replay_case(tables: &J, c: &J) -> (usize, usize, Vec<J>) {
    let oi = c["o"].as_u64().unwrap() as usize - 1;
    let op = tables["oprhs"][oi][0].as_str().unwrap().to_string();
    let di = c["d"].as_u64().unwrap() as usize - 1;
    let doc = &tables["docs"][di];
    let pol: Vec<(bool, bool)> = if has_op_not(&op) {
        vec![(false, false), (false, true), (true, false), (true, true)]
    } else {
        vec![(false, false), (true, false)]
    };
    let mut mism = Vec::new();
    let mut obs = Vec::new();
    for (k, (neg, on)) in pol.iter().enumerate() {
        let prog = program(clause(tables, c, *neg, *on));
        let o = outcome(&prog, doc);
        let exp = &c["r"][k];
        let same = if exp["st"] == "ERR" {
            o["st"] == "ERR"
        } else {
            o["st"] == exp["st"] && o["m"] == exp["m"] && o["clause_children_ok"] == true
        };
        if !same {
            mism.push(json!({"kind":"spec-vs-impl","case":c,"neg":neg,"on":on,"prog":prog,"doc":doc,
                             "rules_text":render::render_file(&prog),"data_text":val::to_json_text(doc),
                             "expected":exp,"observed":o}));
        }
        obs.push(o);
    }
    // the C03 relations, checked directly between implementation runs (independent of the
    // specification's evaluator): prefix not == operator not, double negation restores
    let mut direct = 0;
    if has_op_not(&op) {
        direct += 2;
        let same = |a: &J, b: &J| a["st"] == b["st"] && (a["st"] == "ERR" || a["m"] == b["m"]);
        if !same(&obs[2], &obs[1]) || !same(&obs[3], &obs[0]) {
            mism.push(json!({"kind":"relation-neg-vs-opneg","case":c,"doc":doc,
                             "prog":program(clause(tables, c, true, false)),
                             "rules_text":render::render_file(&program(clause(tables, c, true, false))),
                             "data_text":val::to_json_text(doc),
                             "observed":obs}));
        }
    }
    (pol.len(), direct, mism)
}
