//! AST (exchange format) -> Guard rule text.  No semantics in here, only concrete syntax.
//!
//! Q ::= {"p":"key","k":[cp]} | {"p":"var","n":s} | {"p":"all"} | {"p":"idx"} | {"p":"at","i":n}
//!     | {"p":"filter","c":CNF} | {"p":"keys","op":"eq|in","on":b,"rhs":RHS} | {"p":"this"}
//!     | {"p":"vkey","n":s}
//! RHS ::= {"r":"val","v":V} | {"r":"q","q":[Q],"all":b} | {"r":"fn","f":s,"a":[RHS]}
//! C ::= {"c":"gac","q":[Q],"all":b,"neg":b,"op":s,"on":b,"rhs":[RHS]?,"msg":s?}
//!     | {"c":"named","n":s,"neg":b,"msg":s?} | {"c":"pcall","n":s,"a":[RHS],"neg":b}
//!     | {"c":"block","q":[Q],"all":b,"ne":b,"lets":[L],"b":CNF}
//!     | {"c":"when","w":CNF,"lets":[L],"b":CNF}
//!     | {"c":"type","tn":s,"w":CNF,"lets":[L],"b":CNF}
//! CNF ::= [[C]]      L ::= {"n":s,"v":RHS}
//! Rule ::= {"n":s,"w":CNF,"lets":[L],"b":CNF}   PRule ::= {"n":s,"ps":[s],"lets":[L],"b":CNF}
//! File ::= {"lets":[L],"rules":[Rule],"prules":[PRule]}
use crate::val::{cps_str, guard_string, to_guard};
use serde_json::Value as J;

/// Concrete-syntax choices (C14).  `Style::default()` is the canonical rendering.
#[derive(Clone, Debug, Default)]
pub struct Style {
    pub upper: bool,         // keyword case: when/WHEN, in/IN, exists/EXISTS, is_*/IS_*, some/SOME, keys/KEYS, this/THIS
    pub or_variant: u8,      // 0 or, 1 OR, 2 |OR|
    pub not_variant: u8,     // 0 not, 1 NOT, 2 !
    pub assign_colon: bool,  // = vs :=
    pub single_quotes: bool, // "s" vs 's'
    pub index_dot: bool,     // [n] vs .n
    pub this_prefix: bool,   // explicit leading this.
    pub indent: usize,       // spaces per level (0 => 2)
    pub indent_tab: bool,    // tabs instead of spaces
    pub comments: bool,      // insert # comments between/after clauses
    pub blank_lines: bool,   // blank lines between clauses, trailing spaces
    pub break_lists: bool,   // line breaks inside list literals / filters
    pub sep: u8,             // blank between tokens: 0 one space, 1 a tab, 2 two spaces
    pub crlf: bool,          // lines end with CR LF
    pub bare_default: bool,  // render a rule named "default" as bare clauses
    pub type_as_query: bool, // render type blocks as Resources.*[ Type == 'X' ] { .. }
    pub mix: u64,            // != 0: every token occurrence picks its own variant (seeded)
}

pub struct R<'a> {
    pub st: &'a Style,
    ctr: std::cell::Cell<usize>,
    rng: std::cell::Cell<u64>,
}

fn is_var_name(s: &str) -> bool {
    let mut cs = s.chars();
    match cs.next() {
        Some(c) if c.is_alphabetic() => {}
        _ => return false,
    }
    cs.all(|c| c.is_alphanumeric() || c == '_')
}

const RESERVED: [&str; 6] = ["this", "THIS", "some", "SOME", "when", "WHEN"];

impl<'a> R<'a> {
    pub fn new(st: &'a Style) -> R<'a> {
        R { st, ctr: std::cell::Cell::new(0), rng: std::cell::Cell::new(st.mix) }
    }
    /// per-occurrence coin (only in mixed mode)
    fn coin(&self, n: u64) -> Option<u64> {
        if self.st.mix == 0 {
            return None;
        }
        let mut z = self.rng.get().wrapping_add(0x9E37_79B9_7F4A_7C15);
        self.rng.set(z);
        z = (z ^ (z >> 30)).wrapping_mul(0xBF58_476D_1CE4_E5B9);
        z = (z ^ (z >> 27)).wrapping_mul(0x94D0_49BB_1331_11EB);
        Some((z ^ (z >> 31)) % n)
    }
    fn kw(&self, k: &str) -> String {
        let upper = match self.coin(2) { Some(c) => c == 1, None => self.st.upper };
        if upper {
            k.to_uppercase()
        } else {
            k.to_string()
        }
    }
    fn or(&self) -> &'static str {
        let v = match self.coin(3) { Some(c) => c as u8, None => self.st.or_variant };
        match v {
            1 => "OR",
            2 => "|OR|",
            _ => "or",
        }
    }
    /// the blank between two tokens of a clause
    fn sp(&self) -> &'static str {
        let v = match self.coin(3) { Some(c) => c as u8, None => self.st.sep };
        match v {
            1 => "\t",
            2 => "  ",
            _ => " ",
        }
    }
    /// prefix negation, including the separator it needs
    fn not(&self) -> String {
        let v = match self.coin(3) { Some(c) => c as u8, None => self.st.not_variant };
        match v {
            1 => format!("NOT{}", self.sp()),
            2 => "!".to_string(),
            _ => format!("not{}", self.sp()),
        }
    }
    fn ind(&self, lvl: usize) -> String {
        let n = if self.st.indent == 0 { 2 } else { self.st.indent };
        if self.st.indent_tab {
            return "\t".repeat(lvl);
        }
        " ".repeat(n * lvl)
    }
    fn comment(&self) -> String {
        if self.st.comments {
            let n = self.ctr.get();
            self.ctr.set(n + 1);
            format!(" # c{} rule {{ not a clause }}", n)
        } else {
            String::new()
        }
    }
    fn eol(&self) -> String {
        let mut s = self.comment();
        if self.st.blank_lines {
            s.push_str("  \n\n");
        } else {
            s.push('\n');
        }
        if self.st.comments && self.ctr.get() % 3 == 1 {
            // a comment on a line of its own between two clauses
            s.push_str("      # between clauses: x == 1 or y exists <<not a message>>\n");
        }
        s
    }

    fn key_text(&self, k: &str, first: bool) -> String {
        if is_var_name(k) && !(first && RESERVED.contains(&k)) {
            k.to_string()
        } else {
            guard_string(k, self.st.single_quotes)
        }
    }

    pub fn query(&self, q: &J, lvl: usize) -> String {
        let parts = q.as_array().expect("query must be an array");
        let mut o = String::new();
        let mut first = true;
        if self.st.this_prefix {
            if let Some(p0) = parts.first() {
                let k = p0["p"].as_str().unwrap();
                if k == "key" {
                    o.push_str(&self.kw("this"));
                    first = false;
                }
            }
        }
        for p in parts {
            match p["p"].as_str().unwrap() {
                "this" => {
                    o.push_str(&self.kw("this"));
                }
                "key" => {
                    let k = cps_str(&p["k"]);
                    if !first {
                        o.push('.');
                    }
                    o.push_str(&self.key_text(&k, first));
                }
                "var" => {
                    o.push('%');
                    o.push_str(p["n"].as_str().unwrap());
                }
                "vkey" => {
                    o.push_str(".%");
                    o.push_str(p["n"].as_str().unwrap());
                }
                "all" => o.push_str(".*"),
                "idx" => o.push_str("[*]"),
                "at" => {
                    let i = p["i"].as_i64().unwrap();
                    if self.st.index_dot {
                        o.push_str(&format!(".{}", i));
                    } else {
                        o.push_str(&format!("[{}]", i));
                    }
                }
                "filter" => {
                    o.push_str("[ ");
                    o.push_str(&self.cnf_inline(&p["c"], lvl + 1));
                    o.push_str(" ]");
                }
                "keys" => {
                    o.push_str("[ ");
                    o.push_str(&self.kw("keys"));
                    o.push(' ');
                    let on = p["on"].as_bool().unwrap_or(false);
                    match p["op"].as_str().unwrap() {
                        "eq" => o.push_str(if on { "!=" } else { "==" }),
                        "in" => {
                            if on {
                                o.push_str(&self.not());
                            }
                            o.push_str(&self.kw("in"));
                        }
                        other => panic!("keys op {}", other),
                    }
                    o.push(' ');
                    o.push_str(&self.rhs(&p["rhs"], lvl));
                    o.push_str(" ]");
                }
                other => panic!("unknown query part {}", other),
            }
            first = false;
        }
        o
    }

    pub fn rhs(&self, r: &J, lvl: usize) -> String {
        match r["r"].as_str().unwrap() {
            "val" => self.value(&r["v"]),
            "q" => {
                let mut o = String::new();
                if !r["all"].as_bool().unwrap_or(true) {
                    o.push_str(&self.kw("some"));
                    o.push(' ');
                }
                o.push_str(&self.query(&r["q"], lvl));
                o
            }
            "fn" => {
                let args: Vec<String> =
                    r["a"].as_array().unwrap().iter().map(|a| self.rhs(a, lvl)).collect();
                format!("{}({})", r["f"].as_str().unwrap(), args.join(", "))
            }
            other => panic!("unknown rhs {}", other),
        }
    }

    fn value(&self, v: &J) -> String {
        let t = to_guard(v, self.st.single_quotes);
        if self.st.break_lists && v["t"] == "list" {
            t.replace(", ", ",\n      ")
        } else {
            t
        }
    }

    fn op_text(&self, op: &str, on: bool) -> String {
        match op {
            "eq" => (if on { "!=" } else { "==" }).to_string(),
            "lt" => "<".to_string(),
            "le" => "<=".to_string(),
            "gt" => ">".to_string(),
            "ge" => ">=".to_string(),
            _ => {
                let w = match op {
                    "in" => "in",
                    "exists" => "exists",
                    "empty" => "empty",
                    "is_string" => "is_string",
                    "is_list" => "is_list",
                    "is_struct" => "is_struct",
                    "is_bool" => "is_bool",
                    "is_int" => "is_int",
                    "is_float" => "is_float",
                    "is_null" => "is_null",
                    other => panic!("unknown op {}", other),
                };
                format!("{}{}", if on { self.not() } else { String::new() }, self.kw(w))
            }
        }
    }

    fn msg(&self, c: &J) -> String {
        match c.get("msg").and_then(|m| m.as_str()) {
            Some(m) => format!(" <<{}>>", m),
            None => String::new(),
        }
    }

    fn lets(&self, ls: &J, lvl: usize) -> String {
        let mut o = String::new();
        for l in ls.as_array().map(|a| a.as_slice()).unwrap_or(&[]) {
            o.push_str(&self.ind(lvl));
            o.push_str(&format!(
                "let {} {} {}",
                l["n"].as_str().unwrap(),
                if self.st.assign_colon { ":=" } else { "=" },
                self.rhs(&l["v"], lvl)
            ));
            o.push_str(&self.eol());
        }
        o
    }

    fn block_body(&self, lets: &J, body: &J, lvl: usize) -> String {
        let mut o = String::from("{\n");
        o.push_str(&self.lets(lets, lvl + 1));
        o.push_str(&self.cnf_lines(body, lvl + 1));
        o.push_str(&self.ind(lvl));
        o.push('}');
        o
    }

    pub fn clause(&self, c: &J, lvl: usize) -> String {
        match c["c"].as_str().unwrap() {
            "gac" => {
                let mut o = String::new();
                if c["neg"].as_bool().unwrap_or(false) {
                    o.push_str(&self.not());
                }
                if !c["all"].as_bool().unwrap_or(true) {
                    o.push_str(&self.kw("some"));
                    o.push_str(self.sp());
                }
                o.push_str(&self.query(&c["q"], lvl));
                o.push_str(self.sp());
                o.push_str(&self.op_text(
                    c["op"].as_str().unwrap(),
                    c["on"].as_bool().unwrap_or(false),
                ));
                if let Some(r) = c["rhs"].as_array().and_then(|a| a.first()) {
                    o.push_str(self.sp());
                    o.push_str(&self.rhs(r, lvl));
                }
                o.push_str(&self.msg(c));
                o
            }
            "named" => {
                let mut o = String::new();
                if c["neg"].as_bool().unwrap_or(false) {
                    o.push_str(&self.not());
                }
                o.push_str(c["n"].as_str().unwrap());
                o.push_str(&self.msg(c));
                o
            }
            "pcall" => {
                let mut o = String::new();
                if c["neg"].as_bool().unwrap_or(false) {
                    o.push_str(&self.not());
                }
                let args: Vec<String> =
                    c["a"].as_array().unwrap().iter().map(|a| self.rhs(a, lvl)).collect();
                o.push_str(&format!("{}({})", c["n"].as_str().unwrap(), args.join(", ")));
                o.push_str(&self.msg(c));
                o
            }
            "block" => {
                let mut o = String::new();
                if !c["all"].as_bool().unwrap_or(true) {
                    o.push_str(&self.kw("some"));
                    o.push(' ');
                }
                o.push_str(&self.query(&c["q"], lvl));
                if c["ne"].as_bool().unwrap_or(false) {
                    o.push_str(" !");
                    o.push_str(&self.kw("empty"));
                }
                o.push(' ');
                o.push_str(&self.block_body(&c["lets"], &c["b"], lvl));
                o
            }
            "when" => {
                let mut o = self.kw("when");
                o.push(' ');
                o.push_str(&self.when_conds(&c["w"], lvl));
                o.push(' ');
                o.push_str(&self.block_body(&c["lets"], &c["b"], lvl));
                o
            }
            "type" => {
                if self.st.type_as_query
                    && c["w"].as_array().map(|a| a.is_empty()).unwrap_or(true)
                {
                    let mut o = format!(
                        "Resources.*[ Type == {} ] ",
                        guard_string(c["tn"].as_str().unwrap(), !self.st.single_quotes)
                    );
                    o.push_str(&self.block_body(&c["lets"], &c["b"], lvl));
                    return o;
                }
                let mut o = c["tn"].as_str().unwrap().to_string();
                o.push(' ');
                if c["w"].as_array().map(|a| !a.is_empty()).unwrap_or(false) {
                    o.push_str(&self.kw("when"));
                    o.push(' ');
                    o.push_str(&self.when_conds(&c["w"], lvl));
                    o.push(' ');
                }
                o.push_str(&self.block_body(&c["lets"], &c["b"], lvl));
                o
            }
            other => panic!("unknown clause {}", other),
        }
    }

    /// when-conditions: one line per conjunct (a named rule must be followed by newline, `{`
    /// or an `or`), alternatives joined by `or`
    fn when_conds(&self, w: &J, lvl: usize) -> String {
        let lines: Vec<String> = w
            .as_array()
            .unwrap()
            .iter()
            .map(|line| {
                let alts: Vec<String> = line.as_array().unwrap().iter().map(|c| self.clause(c, lvl + 2)).collect();
                self.join_alts(&alts, lvl + 2)
            })
            .collect();
        lines.join(&format!("\n{}", self.ind(lvl + 2)))
    }

    fn cnf_inline(&self, cnf: &J, lvl: usize) -> String {
        let lines: Vec<String> = cnf
            .as_array()
            .unwrap()
            .iter()
            .map(|line| {
                let alts: Vec<String> = line.as_array().unwrap().iter().map(|c| self.clause(c, lvl)).collect();
                self.join_alts(&alts, lvl)
            })
            .collect();
        let sep = if self.st.break_lists { format!("\n{}", self.ind(lvl)) } else { "\n".to_string() };
        lines.join(&sep)
    }

    /// alternatives of one line joined by `or`; with line breaks enabled the `or` ends the line,
    /// starts the next one, or follows a comment that ends the line of the previous alternative
    fn join_alts(&self, alts: &[String], lvl: usize) -> String {
        let mut o = String::new();
        for (i, a) in alts.iter().enumerate() {
            if i > 0 {
                if self.st.break_lists {
                    let n = self.ctr.get();
                    self.ctr.set(n + 1);
                    let layout = match self.coin(3) { Some(c) => c as usize, None => n % 3 };
                    match layout {
                        0 => o.push_str(&format!(" {}\n{}", self.or(), self.ind(lvl + 1))),
                        1 => o.push_str(&format!("\n{}{} ", self.ind(lvl + 1), self.or())),
                        _ => {
                            if self.st.comments {
                                o.push_str(&format!(" # alt {} or not\n{}{} ", n, self.ind(lvl + 1), self.or()));
                            } else {
                                o.push_str(&format!("  \n\n{}{}\n{}", self.ind(lvl + 1), self.or(), self.ind(lvl + 2)));
                            }
                        }
                    }
                } else {
                    o.push_str(&format!("{}{}{}", self.sp(), self.or(), self.sp()));
                }
            }
            o.push_str(a);
        }
        o
    }

    fn cnf_lines(&self, cnf: &J, lvl: usize) -> String {
        let mut o = String::new();
        for line in cnf.as_array().unwrap() {
            let alts: Vec<String> =
                line.as_array().unwrap().iter().map(|c| self.clause(c, lvl)).collect();
            o.push_str(&self.ind(lvl));
            o.push_str(&self.join_alts(&alts, lvl));
            o.push_str(&self.eol());
        }
        o
    }

    pub fn rule(&self, r: &J) -> String {
        let name = r["n"].as_str().unwrap();
        if self.st.bare_default && name == "default" {
            // bare clauses: the body of the implicit default rule
            return self.cnf_lines(&r["b"], 0);
        }
        let mut o = format!("rule {}", name);
        if r["w"].as_array().map(|a| !a.is_empty()).unwrap_or(false) {
            o.push(' ');
            o.push_str(&self.kw("when"));
            o.push(' ');
            o.push_str(&self.when_conds(&r["w"], 0));
        }
        o.push(' ');
        o.push_str(&self.block_body(&r["lets"], &r["b"], 0));
        o.push('\n');
        o
    }

    pub fn prule(&self, r: &J) -> String {
        let ps: Vec<&str> = r["ps"].as_array().unwrap().iter().map(|p| p.as_str().unwrap()).collect();
        let mut o = format!("rule {}({}) ", r["n"].as_str().unwrap(), ps.join(", "));
        o.push_str(&self.block_body(&r["lets"], &r["b"], 0));
        o.push('\n');
        o
    }

    pub fn file(&self, f: &J) -> String {
        let mut o = String::new();
        if self.st.comments {
            o.push_str("# header comment\n");
        }
        o.push_str(&self.lets(&f["lets"], 0));
        for r in f["prules"].as_array().map(|a| a.as_slice()).unwrap_or(&[]) {
            o.push_str(&self.prule(r));
        }
        for r in f["rules"].as_array().unwrap() {
            o.push_str(&self.rule(r));
        }
        o
    }
}

impl Style {
    /// a style vector as printed by MC_Syntax (STYLE lines)
    pub fn from_json(j: &J) -> Style {
        let b = |k: &str| j[k].as_bool().unwrap_or(false);
        let n = |k: &str| j[k].as_u64().unwrap_or(0);
        Style {
            upper: b("upper"),
            or_variant: n("or") as u8,
            not_variant: n("not") as u8,
            assign_colon: b("assign"),
            single_quotes: b("single"),
            index_dot: b("dot"),
            this_prefix: b("this"),
            indent: n("indent") as usize,
            indent_tab: b("tab"),
            comments: b("comments"),
            blank_lines: b("blanks"),
            break_lists: b("breaks"),
            sep: n("sep") as u8,
            crlf: b("crlf"),
            bare_default: b("bare"),
            type_as_query: b("tq"),
            mix: n("mix"),
        }
    }
}

pub fn render_file(f: &J) -> String {
    let st = Style::default();
    R::new(&st).file(f)
}

pub fn render_file_with(f: &J, st: &Style) -> String {
    let t = R::new(st).file(f);
    if st.crlf {
        t.replace('\n', "\r\n")
    } else {
        t
    }
}
