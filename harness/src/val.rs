//! Abstract values (the exchange format shared with the TLA+ specification, see spec/SCHEMA.md)
//! and their concrete renderings: JSON document text, Guard value literals.
//!
//! V ::= {"t":"null"} | {"t":"bool","v":b} | {"t":"int","v":n} | {"t":"flt","v":milli}
//!     | {"t":"str","v":[codepoints]} | {"t":"list","v":[V]} | {"t":"map","k":[[cp]],"v":[V]}
//!     | {"t":"re","s":b,"e":b,"v":[cp]}      regex /^?lit$?/ with lit escaped
//!     | {"t":"rint","lo":n,"hi":n,"inc":0..3} | {"t":"rflt","lo":milli,"hi":milli,"inc":0..3}
//!     | {"t":"chr","v":cp}
use serde_json::{json, Value as J};

pub fn cps(s: &str) -> J {
    J::Array(s.chars().map(|c| json!(c as u32)).collect())
}

pub fn cps_str(j: &J) -> String {
    j.as_array()
        .map(|a| {
            a.iter()
                .map(|c| char::from_u32(c.as_u64().unwrap_or(0xFFFD) as u32).unwrap_or('\u{FFFD}'))
                .collect()
        })
        .unwrap_or_default()
}

pub fn vstr(s: &str) -> J {
    json!({"t":"str","v":cps(s)})
}
pub fn vint(n: i64) -> J {
    json!({"t":"int","v":n})
}
pub fn vflt(milli: i64) -> J {
    json!({"t":"flt","v":milli})
}
pub fn vbool(b: bool) -> J {
    json!({"t":"bool","v":b})
}
pub fn vnull() -> J {
    json!({"t":"null"})
}
pub fn vlist(xs: Vec<J>) -> J {
    json!({"t":"list","v":xs})
}
pub fn vmap(kv: Vec<(&str, J)>) -> J {
    let k: Vec<J> = kv.iter().map(|(k, _)| cps(k)).collect();
    let v: Vec<J> = kv.into_iter().map(|(_, v)| v).collect();
    json!({"t":"map","k":k,"v":v})
}

/// The fixed order embedding of model integers into i64 (identity on small numbers, four
/// sentinels for the extremes).  Every property about integers here is about order/equality.
pub fn embed_int(n: i64) -> i64 {
    match n {
        1_000_000_001 => i64::MAX - 1,
        1_000_000_002 => i64::MAX,
        -1_000_000_001 => i64::MIN + 1,
        -1_000_000_002 => i64::MIN,
        _ => n,
    }
}
pub fn unembed_int(n: i64) -> Option<i64> {
    if n == i64::MAX - 1 {
        Some(1_000_000_001)
    } else if n == i64::MAX {
        Some(1_000_000_002)
    } else if n == i64::MIN + 1 {
        Some(-1_000_000_001)
    } else if n == i64::MIN {
        Some(-1_000_000_002)
    } else if n.abs() <= 1_000_000 {
        Some(n)
    } else {
        None
    }
}

/// milli-units -> decimal text.  Sentinels: +-1_000_000_001 => +-1e308, 1_000_000_003 => 5e-324.
pub fn flt_text(m: i64) -> String {
    match m {
        1_000_000_001 => "1e+308".to_string(),
        -1_000_000_001 => "-1e+308".to_string(),
        1_000_000_003 => "5e-324".to_string(),
        _ => {
            let sign = if m < 0 { "-" } else { "" };
            let a = m.unsigned_abs();
            format!("{}{}.{:03}", sign, a / 1000, a % 1000)
        }
    }
}

pub fn flt_of_f64(f: f64) -> Option<i64> {
    if f == 1e308 {
        return Some(1_000_000_001);
    }
    if f == -1e308 {
        return Some(-1_000_000_001);
    }
    if f == 5e-324 {
        return Some(1_000_000_003);
    }
    let m = (f * 1000.0).round();
    if m.abs() <= 1e9 {
        let mi = m as i64;
        // must round-trip through the decimal text
        if flt_text(mi).parse::<f64>().ok() == Some(f) {
            return Some(mi);
        }
    }
    None
}

fn json_escape(s: &str) -> String {
    serde_json::to_string(s).unwrap()
}

/// compact JSON text of a document value
pub fn to_json_text(v: &J) -> String {
    let mut out = String::new();
    write_json(v, &mut out);
    out
}

fn write_json(v: &J, out: &mut String) {
    match v["t"].as_str().unwrap_or("?") {
        "null" => out.push_str("null"),
        "bool" => out.push_str(if v["v"].as_bool().unwrap() { "true" } else { "false" }),
        "int" => out.push_str(&embed_int(v["v"].as_i64().unwrap()).to_string()),
        "flt" => out.push_str(&flt_text(v["v"].as_i64().unwrap())),
        "str" => out.push_str(&json_escape(&cps_str(&v["v"]))),
        "list" => {
            out.push('[');
            for (i, e) in v["v"].as_array().unwrap().iter().enumerate() {
                if i > 0 {
                    out.push(',');
                }
                write_json(e, out);
            }
            out.push(']');
        }
        "map" => {
            out.push('{');
            let ks = v["k"].as_array().unwrap();
            let vs = v["v"].as_array().unwrap();
            for i in 0..ks.len() {
                if i > 0 {
                    out.push(',');
                }
                out.push_str(&json_escape(&cps_str(&ks[i])));
                out.push(':');
                write_json(&vs[i], out);
            }
            out.push('}');
        }
        other => panic!("value of type {} cannot appear in a document", other),
    }
}

/// escape a regex literal fragment so that it matches itself; the code point 0 stands for the
/// wildcard `.` (any one character) and is written unescaped
pub fn regex_escape(lit: &str) -> String {
    let mut o = String::new();
    for c in lit.chars() {
        if c == '\u{0}' {
            o.push('.');
            continue;
        }
        if "\\.+*?()|[]{}^$#&-~/".contains(c) {
            o.push('\\');
        }
        o.push(c);
    }
    o
}

pub fn guard_string(s: &str, single: bool) -> String {
    let q = if single { '\'' } else { '"' };
    let mut o = String::new();
    o.push(q);
    for c in s.chars() {
        if c == q {
            o.push('\\');
        }
        o.push(c);
    }
    o.push(q);
    o
}

/// is this string expressible as a Guard string literal (no trailing backslash, no backslash
/// immediately before a quote)?
pub fn guard_string_ok(s: &str) -> bool {
    !s.contains('\\')
}

fn bracket(inc: i64) -> (char, char) {
    (if inc & 1 != 0 { '[' } else { '(' }, if inc & 2 != 0 { ']' } else { ')' })
}

/// Guard value literal text
pub fn to_guard(v: &J, single_quotes: bool) -> String {
    match v["t"].as_str().unwrap_or("?") {
        "null" => "null".to_string(),
        "bool" => (if v["v"].as_bool().unwrap() { "true" } else { "false" }).to_string(),
        "int" => embed_int(v["v"].as_i64().unwrap()).to_string(),
        "flt" => flt_text(v["v"].as_i64().unwrap()),
        "str" => guard_string(&cps_str(&v["v"]), single_quotes),
        "re" => {
            let mut o = String::from("/");
            if v["s"].as_bool().unwrap_or(false) {
                o.push('^');
            }
            o.push_str(&regex_escape(&cps_str(&v["v"])));
            if v["e"].as_bool().unwrap_or(false) {
                o.push('$');
            }
            o.push('/');
            o
        }
        "rint" => {
            let (a, b) = bracket(v["inc"].as_i64().unwrap());
            format!(
                "r{}{},{}{}",
                a,
                embed_int(v["lo"].as_i64().unwrap()),
                embed_int(v["hi"].as_i64().unwrap()),
                b
            )
        }
        "rflt" => {
            let (a, b) = bracket(v["inc"].as_i64().unwrap());
            format!(
                "r{}{},{}{}",
                a,
                flt_text(v["lo"].as_i64().unwrap()),
                flt_text(v["hi"].as_i64().unwrap()),
                b
            )
        }
        "list" => {
            let xs: Vec<String> =
                v["v"].as_array().unwrap().iter().map(|e| to_guard(e, single_quotes)).collect();
            format!("[{}]", xs.join(", "))
        }
        "map" => {
            let ks = v["k"].as_array().unwrap();
            let vs = v["v"].as_array().unwrap();
            let xs: Vec<String> = (0..ks.len())
                .map(|i| {
                    format!(
                        "{}: {}",
                        guard_string(&cps_str(&ks[i]), single_quotes),
                        to_guard(&vs[i], single_quotes)
                    )
                })
                .collect();
            format!("{{{}}}", xs.join(", "))
        }
        other => panic!("cannot render value type {}", other),
    }
}

/// concrete JSON (as produced by the implementation, e.g. `from.value`) -> abstract value;
/// None when it falls outside the abstract universe.
pub fn from_json(j: &J) -> Option<J> {
    Some(match j {
        J::Null => vnull(),
        J::Bool(b) => vbool(*b),
        J::Number(n) => {
            if let Some(i) = n.as_i64() {
                vint(unembed_int(i)?)
            } else if let Some(f) = n.as_f64() {
                vflt(flt_of_f64(f)?)
            } else {
                return None;
            }
        }
        J::String(s) => vstr(s),
        J::Array(a) => {
            let mut xs = Vec::new();
            for e in a {
                xs.push(from_json(e)?);
            }
            vlist(xs)
        }
        J::Object(m) => {
            let mut k = Vec::new();
            let mut v = Vec::new();
            for (kk, vv) in m {
                k.push(cps(kk));
                v.push(from_json(vv)?);
            }
            json!({"t":"map","k":k,"v":v})
        }
    })
}

/// "/a/0/b" -> ["a","0","b"] as code point arrays
pub fn path_segments(p: &str) -> J {
    if p.is_empty() {
        return json!([]);
    }
    J::Array(p.split('/').skip(1).map(cps).collect())
}

/// A value as the implementation *reports* it (structured report / record tree): regex
/// literals are printed as "/re/" strings and ranges as "[lo,hi)" strings.  Documents of the
/// generators never contain such strings, so they are mapped back to the abstract regex /
/// range values.
pub fn from_reported_json(j: &J) -> Option<J> {
    if let J::String(s) = j {
        if s.len() >= 2 && s.starts_with('/') && s.ends_with('/') {
            let mut body: &str = &s[1..s.len() - 1];
            let st = body.starts_with('^');
            if st {
                body = &body[1..];
            }
            let mut en = false;
            if body.ends_with('$') && !body.ends_with("\\$") {
                en = true;
                body = &body[..body.len() - 1];
            }
            let mut lit = String::new();
            let mut esc = false;
            for c in body.chars() {
                if esc {
                    lit.push(c);
                    esc = false;
                } else if c == '\\' {
                    esc = true;
                } else if c == '.' {
                    lit.push('\u{0}');      // the wildcard
                } else {
                    lit.push(c);
                }
            }
            return Some(json!({"t":"re","s":st,"e":en,"v":cps(&lit)}));
        }
        let b = s.as_bytes();
        if s.len() >= 5 && (b[0] == b'[' || b[0] == b'(') && (b[s.len() - 1] == b']' || b[s.len() - 1] == b')') {
            let inner = &s[1..s.len() - 1];
            let parts: Vec<&str> = inner.split(',').collect();
            if parts.len() == 2 {
                let inc = (if b[0] == b'[' { 1 } else { 0 }) + (if b[s.len() - 1] == b']' { 2 } else { 0 });
                if let (Ok(lo), Ok(hi)) = (parts[0].parse::<i64>(), parts[1].parse::<i64>()) {
                    return Some(json!({"t":"rint","lo":unembed_int(lo)?,"hi":unembed_int(hi)?,"inc":inc}));
                }
                if let (Ok(lo), Ok(hi)) = (parts[0].parse::<f64>(), parts[1].parse::<f64>()) {
                    return Some(json!({"t":"rflt","lo":flt_of_f64(lo)?,"hi":flt_of_f64(hi)?,"inc":inc}));
                }
            }
        }
    }
    match j {
        J::Array(a) => {
            let mut xs = Vec::new();
            for e in a {
                xs.push(from_reported_json(e)?);
            }
            Some(vlist(xs))
        }
        J::Object(m) => {
            let mut k = Vec::new();
            let mut v = Vec::new();
            for (kk, vv) in m {
                k.push(cps(kk));
                v.push(from_reported_json(vv)?);
            }
            Some(json!({"t":"map","k":k,"v":v}))
        }
        other => from_json(other),
    }
}
