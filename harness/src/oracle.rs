//! Reference results for the table-driven functions of the specification (json_parse,
//! url_decode, regex_replace), computed independently of the implementation under test:
//! strict JSON via serde_json, a hand-written percent decoder, and - for regex_replace - the
//! documented behaviour on patterns that match the whole string.
use crate::val;
use serde_json::{json, Value as J};

fn collect_strings(j: &J, out: &mut Vec<String>) {
    match j {
        J::Object(m) => {
            if m.get("t").map(|t| t == "str").unwrap_or(false) {
                if let Some(v) = m.get("v") {
                    let s = val::cps_str(v);
                    if !out.contains(&s) {
                        out.push(s);
                    }
                }
            }
            for v in m.values() {
                collect_strings(v, out);
            }
        }
        J::Array(a) => {
            for v in a {
                collect_strings(v, out);
            }
        }
        _ => {}
    }
}

fn collect_regex_calls(j: &J, out: &mut Vec<(String, String)>) {
    match j {
        J::Object(m) => {
            if m.get("r").map(|t| t == "fn").unwrap_or(false) && m.get("f").map(|f| f == "regex_replace").unwrap_or(false) {
                let a = &m["a"];
                if a[1]["r"] == "val" && a[2]["r"] == "val" && a[1]["v"]["t"] == "str" && a[2]["v"]["t"] == "str" {
                    let p = (val::cps_str(&a[1]["v"]["v"]), val::cps_str(&a[2]["v"]["v"]));
                    if !out.contains(&p) {
                        out.push(p);
                    }
                }
            }
            for v in m.values() {
                collect_regex_calls(v, out);
            }
        }
        J::Array(a) => {
            for v in a {
                collect_regex_calls(v, out);
            }
        }
        _ => {}
    }
}

/// percent decoding as documented for url_decode; None when the result is not UTF-8
pub fn url_decode(s: &str) -> Option<String> {
    let b = s.as_bytes();
    let mut out: Vec<u8> = Vec::with_capacity(b.len());
    let mut i = 0;
    let hex = |c: u8| -> Option<u8> {
        match c {
            b'0'..=b'9' => Some(c - b'0'),
            b'a'..=b'f' => Some(c - b'a' + 10),
            b'A'..=b'F' => Some(c - b'A' + 10),
            _ => None,
        }
    };
    while i < b.len() {
        if b[i] == b'%' && i + 2 < b.len() + 0 && i + 2 <= b.len() - 1 + 0 {
            if let (Some(h), Some(l)) = (hex(b[i + 1]), hex(b[i + 2])) {
                out.push(h * 16 + l);
                i += 3;
                continue;
            }
        }
        out.push(b[i]);
        i += 1;
    }
    String::from_utf8(out).ok()
}

pub fn table(prog: &J, doc: &J) -> J {
    let mut strings = Vec::new();
    collect_strings(doc, &mut strings);
    collect_strings(prog, &mut strings);
    let mut tab = Vec::new();
    for s in &strings {
        // json_parse: only texts that are strict JSON are given a reference result
        if let Ok(j) = serde_json::from_str::<J>(s) {
            if let Some(v) = val::from_json(&j) {
                tab.push(json!({"f":"json_parse","a":[val::cps(s)],"ok":true,"v":v}));
            }
        }
        match url_decode(s) {
            Some(d) => tab.push(json!({"f":"url_decode","a":[val::cps(s)],"ok":true,"v":val::vstr(&d)})),
            None => tab.push(json!({"f":"url_decode","a":[val::cps(s)],"ok":false,"v":val::vnull()})),
        }
    }
    let mut calls = Vec::new();
    collect_regex_calls(prog, &mut calls);
    for (pat, rep) in &calls {
        if let Ok(re) = fancy_regex::Regex::new(pat) {
            for s in &strings {
                if let Ok(Some(caps)) = re.captures(s) {
                    let m = caps.get(0).unwrap();
                    if m.start() == 0 && m.end() == s.len() {
                        let mut out = String::new();
                        caps.expand(rep, &mut out);
                        tab.push(json!({"f":"regex_replace","a":[val::cps(s), val::cps(pat), val::cps(rep)],"ok":true,"v":val::vstr(&out)}));
                    }
                }
            }
        }
    }
    J::Array(tab)
}
