//! gv: harness entry point.  Subcommands:
//!   record-eval --seed S --n N --cfg core|full --out FILE   random programs -> run -> ndjson trace
//!   render                                                  {"prog":..,"doc":..} on stdin -> texts
//!   replay --in FILE --out FILE                             TLC REPLAY lines -> run -> compare
use gv::{exec, gen, render, rng::Rng, val};
use serde_json::{json, Value as J};
use std::collections::HashMap;
use std::io::{BufRead, Write};

fn args() -> (String, HashMap<String, String>) {
    let a: Vec<String> = std::env::args().collect();
    let cmd = a.get(1).cloned().unwrap_or_default();
    let mut m = HashMap::new();
    let mut i = 2;
    while i < a.len() {
        if let Some(k) = a[i].strip_prefix("--") {
            let v = a.get(i + 1).cloned().unwrap_or_default();
            m.insert(k.to_string(), v);
            i += 2;
        } else {
            i += 1;
        }
    }
    (cmd, m)
}

/// TLC's JSON module has no null
fn strip_nulls(j: &mut J) {
    match j {
        J::Object(m) => {
            let ks: Vec<String> = m.iter().filter(|(_, v)| v.is_null()).map(|(k, _)| k.clone()).collect();
            for k in ks {
                m.remove(&k);
            }
            for v in m.values_mut() {
                strip_nulls(v);
            }
        }
        J::Array(a) => {
            for v in a {
                strip_nulls(v);
            }
        }
        _ => {}
    }
}

fn cfg_of(name: &str) -> gen::Cfg {
    match name {
        "full" => gen::Cfg::full(),
        "fn" => gen::Cfg::functions(),
        "dups" => gen::Cfg { distinct_rule_names: false, max_rules: 5, ..gen::Cfg::core() },
        _ => gen::Cfg::core(),
    }
}

fn main() {
    let (cmd, m) = args();
    exec::install_quiet_panic_hook();
    match cmd.as_str() {
        "record-eval" => {
            let seed: u64 = m.get("seed").and_then(|s| s.parse().ok()).unwrap_or(1);
            let n: usize = m.get("n").and_then(|s| s.parse().ok()).unwrap_or(100);
            let cfg = cfg_of(m.get("cfg").map(|s| s.as_str()).unwrap_or("core"));
            let out = m.get("out").expect("--out");
            let mut f = std::io::BufWriter::new(std::fs::File::create(out).unwrap());
            let mut r = Rng::new(seed);
            for i in 0..n {
                let mut rr = r.fork();
                let mut g = gen::Gen { r: &mut rr, cfg: cfg.clone() };
                let doc = g.doc();
                let prog = g.program(&doc);
                let rules = render::render_file(&prog);
                let data = val::to_json_text(&doc);
                let obs = if m.get("rtree").map(|v| v == "1").unwrap_or(false) {
                    exec::observe_with_rtree(&rules, &data)
                } else if m.get("full").map(|v| v == "1").unwrap_or(false) {
                    exec::observe_full(&rules, &data)
                } else {
                    let mut obs = exec::observe(&rules, &data, false);
                    if obs["kind"] == "ok" {
                        let t = exec::status_tree(&obs["tree"]);
                        obs["tree"] = t;
                    }
                    obs
                };
                let mut line = json!({"i": i + 1, "prog": prog, "doc": doc, "obs": obs});
                if cfg.functions {
                    line["tab"] = gv::oracle::table(&prog, &doc);
                }
                writeln!(f, "{}", line).unwrap();
            }
        }
        "render" => {
            let stdin = std::io::stdin();
            for l in stdin.lock().lines() {
                let l = l.unwrap();
                if l.trim().is_empty() {
                    continue;
                }
                let j: J = serde_json::from_str(&l).unwrap();
                println!("--- rules\n{}--- data\n{}", render::render_file(&j["prog"]), val::to_json_text(&j["doc"]));
                let obs = exec::observe(&render::render_file(&j["prog"]), &val::to_json_text(&j["doc"]), false);
                println!("--- obs\n{}", obs);
            }
        }
        "record-neg" => {
            // C03: groups of executions of one program with one clause negated in the two ways
            let seed: u64 = m.get("seed").and_then(|s| s.parse().ok()).unwrap_or(1);
            let n: usize = m.get("n").and_then(|s| s.parse().ok()).unwrap_or(100);
            let cfg = cfg_of(m.get("cfg").map(|s| s.as_str()).unwrap_or("core"));
            let out = m.get("out").expect("--out");
            let mut f = std::io::BufWriter::new(std::fs::File::create(out).unwrap());
            let mut r = Rng::new(seed);
            let mut i = 0usize;
            let mut grp = 0usize;
            while grp < n {
                let mut rr = r.fork();
                let mut g = gen::Gen { r: &mut rr, cfg: cfg.clone() };
                let doc = g.doc();
                let mut prog = g.program(&doc);
                let ptrs: Vec<String> = gv::xform::clause_pointers(&prog)
                    .into_iter()
                    .filter(|p| { let c = prog.pointer(p).unwrap(); c["c"] == "gac" })
                    .collect();
                if ptrs.is_empty() { continue; }
                let ptr = ptrs[rr.below(ptrs.len())].clone();
                let op = prog.pointer(&ptr).unwrap()["op"].as_str().unwrap().to_string();
                // named-rule negation: two extra rules `nrp { R }` and `nrn { not R }`
                let names: Vec<String> = prog["rules"].as_array().unwrap().iter().map(|x| x["n"].as_str().unwrap().to_string()).collect();
                let target = names[rr.below(names.len())].clone();
                let rules = prog["rules"].as_array_mut().unwrap();
                rules.push(json!({"n":"nrp","w":[],"lets":[],"b":[[{"c":"named","n":target,"neg":false}]]}));
                rules.push(json!({"n":"nrn","w":[],"lets":[],"b":[[{"c":"named","n":target,"neg":true}]]}));
                grp += 1;
                let vars: Vec<(&str, bool, bool)> = if gv::xform::has_op_not(&op) {
                    vec![("B", false, false), ("N", true, false), ("O", false, true), ("NO", true, true)]
                } else {
                    vec![("B", false, false), ("N", true, false)]
                };
                for (var, neg, on) in vars {
                    let p2 = gv::xform::toggle(&prog, &ptr, neg, on);
                    let rules_text = render::render_file(&p2);
                    let mut obs = exec::observe(&rules_text, &val::to_json_text(&doc), false);
                    if obs["kind"] == "ok" {
                        let t = exec::status_tree(&obs["tree"]);
                        obs["tree"] = t;
                    }
                    i += 1;
                    let mut line = json!({"i": i, "grp": grp, "var": var, "ptr": ptr, "target": target, "prog": p2, "doc": doc, "obs": obs});
                    if cfg.functions {
                        line["tab"] = gv::oracle::table(&p2, &doc);
                    }
                    writeln!(f, "{}", line).unwrap();
                }
            }
        }
        "record-perm" | "record-abs" => {
            // C04 / C15: groups = one generated program and its order / abstraction variants
            let seed: u64 = m.get("seed").and_then(|s| s.parse().ok()).unwrap_or(1);
            let n: usize = m.get("n").and_then(|s| s.parse().ok()).unwrap_or(100);
            let cfg = cfg_of(m.get("cfg").map(|s| s.as_str()).unwrap_or("core"));
            let out = m.get("out").expect("--out");
            let kinds: Vec<&str> = if cmd == "record-perm" { vec!["PL", "PA", "DC", "PR", "DR"] } else { vec!["AL", "AQ", "AR", "UN", "SH", "IN", "IL"] };
            let mut f = std::io::BufWriter::new(std::fs::File::create(out).unwrap());
            let mut r = Rng::new(seed);
            let mut i = 0usize;
            for grp in 1..=n {
                let mut rr = r.fork();
                let (doc, prog) = {
                    let mut g = gen::Gen { r: &mut rr, cfg: cfg.clone() };
                    let doc = g.doc();
                    let prog = g.program(&doc);
                    (doc, prog)
                };
                let data = val::to_json_text(&doc);
                let mut emit = |var: &str, p: &J, i: &mut usize| {
                    let mut obs = exec::observe(&render::render_file(p), &data, false);
                    if obs["kind"] == "ok" {
                        let t = exec::status_tree(&obs["tree"]);
                        obs["tree"] = t;
                    }
                    *i += 1;
                    let mut line = json!({"i": *i, "grp": grp, "var": var, "prog": p, "doc": doc, "obs": obs});
                    if cfg.functions {
                        line["tab"] = gv::oracle::table(p, &doc);
                    }
                    if var == "DR" {
                        for r0 in p["rules"].as_array().unwrap() {
                            let n = r0["n"].as_str().unwrap();
                            if let Some(o) = n.strip_suffix("dup") {
                                line["dup"] = json!(n);
                                line["orig"] = json!(o);
                            }
                        }
                    }
                    writeln!(f, "{}", line).unwrap();
                };
                emit("B", &prog, &mut i);
                for k in &kinds {
                    let v = if cmd == "record-perm" { gv::xform::perm_variant(&prog, k, &mut rr) } else { gv::xform::abs_variant(&prog, k, &mut rr) };
                    if let Some(p2) = v {
                        emit(k, &p2, &mut i);
                    }
                }
            }
        }
        "record-syntax" => {
            // C14: groups = one generated program rendered under the canonical style (line B) and
            // under the style vectors enumerated by MC_Syntax (--styles: one JSON style per line),
            // plus per-occurrence mixed styles.  Each line carries the parse tree printed by
            // `parse-tree --print-json` (locations removed) and the verdicts of run_checks.
            let seed: u64 = m.get("seed").and_then(|s| s.parse().ok()).unwrap_or(1);
            let n: usize = m.get("n").and_then(|s| s.parse().ok()).unwrap_or(100);
            let per: usize = m.get("per").and_then(|s| s.parse().ok()).unwrap_or(8);
            let cfg = cfg_of(m.get("cfg").map(|s| s.as_str()).unwrap_or("core"));
            let out = m.get("out").expect("--out");
            let styles: Vec<J> = std::fs::read_to_string(m.get("styles").expect("--styles"))
                .unwrap()
                .lines()
                .filter(|l| !l.trim().is_empty())
                .map(|l| serde_json::from_str(l).unwrap())
                .collect();
            let singles: Vec<&J> = styles.iter().filter(|s| s["nd"] == 1).collect();
            let others: Vec<&J> = styles.iter().filter(|s| s["nd"] != 1 && s["nd"] != 0).collect();
            let mut f = std::io::BufWriter::new(std::fs::File::create(out).unwrap());
            let mut r = Rng::new(seed);
            let mut i = 0usize;
            for grp in 1..=n {
                let mut rr = r.fork();
                let (doc, mut prog) = {
                    let mut g = gen::Gen { r: &mut rr, cfg: cfg.clone() };
                    let doc = g.doc();
                    let prog = g.program(&doc);
                    (doc, prog)
                };
                // every third program: the first rule becomes the default rule when its body can be
                // written as bare clauses
                let mut has_default = false;
                let first = prog["rules"][0]["n"].as_str().unwrap().to_string();
                let first_unique = prog["rules"].as_array().unwrap().iter().filter(|r| r["n"] == first.as_str()).count() == 1;
                if grp % 3 == 0 && first_unique && gv::xform::bare_ok(&prog["rules"][0]) && !gv::xform::is_referenced(&prog, &first) {
                    let old = first.clone();
                    gv::xform::rename_rule(&mut prog, &old, "default");
                    has_default = true;
                }
                let has_type = gv::xform::has_plain_type_block(&prog);
                let data = val::to_json_text(&doc);
                let mut emit = |var: &str, st: &J, style: &render::Style, i: &mut usize| {
                    let text = render::render_file_with(&prog, style);
                    let mut obs = exec::observe(&text, &data, false);
                    if obs["kind"] == "ok" {
                        let t = exec::status_tree(&obs["tree"]);
                        obs["tree"] = t;
                    }
                    let pt = exec::parse_tree(&text);
                    *i += 1;
                    let ptk = if pt["kind"] == "ok" { pt["ast"].to_string() } else { format!("!{}", pt) };
                    let ptn = if pt["kind"] == "ok" {
                        let mut a = pt["ast"].clone();
                        exec::strip_leading_this(&mut a);
                        a.to_string()
                    } else {
                        ptk.clone()
                    };
                    let mut line = json!({"i": *i, "grp": grp, "var": var, "style": st, "obs": obs,
                                          "pt": gv::xform::digest(&ptk), "ptn": gv::xform::digest(&ptn),
                                          "ptkind": pt["kind"], "text": text});
                    if var == "B" || var == "TQ" {
                        // TQ lines are judged against the denotation of the rewritten program
                        let p = if var == "TQ" { gv::xform::type_to_query(&prog) } else { prog.clone() };
                        if var == "TQ" {
                            // the text written under the style is the rewritten program
                            let t2 = exec::parse_tree(&render::render_file(&p));
                            line["tq_text_ok"] = json!(t2["kind"] == "ok" && pt["kind"] == "ok" && t2["ast"] == pt["ast"]);
                        }
                        if cfg.functions {
                            line["tab"] = gv::oracle::table(&p, &doc);
                        }
                        line["prog"] = p;
                        line["doc"] = doc.clone();
                    }
                    line["file"] = json!("r.guard");
                    if pt["kind"] != "ok" {
                        line["pterr"] = pt.clone();
                    }
                    if var == "B" {
                        // the YAML rendering of the parse tree is the same tree as the JSON one
                        let y = exec::cli_in_process_stdin(&["parse-tree", "--print-yaml"], &text);
                        let j = exec::cli_in_process_stdin(&["parse-tree", "--print-json"], &text);
                        let as_json = |t: &str| -> Option<J> {
                            let body = t.strip_prefix("0:")?;
                            serde_yaml::from_str::<J>(body).ok()
                        };
                        line["pt_formats_agree"] = json!(match (as_json(&y), as_json(&j)) {
                            (Some(a), Some(c)) => a == c,
                            _ => false,
                        });
                    }
                    writeln!(f, "{}", line).unwrap();
                };
                let canon = render::Style::default();
                emit("B", &json!({"nd": 0}), &canon, &mut i);
                // every single-class deviation, then sampled combinations, then mixed occurrences
                for s in &singles {
                    let st = render::Style::from_json(s);
                    if st.type_as_query && !has_type {
                        continue;
                    }
                    emit(if st.type_as_query { "TQ" } else { "SY" }, s, &st, &mut i);
                }
                for _ in 0..per {
                    if others.is_empty() {
                        break;
                    }
                    let s = others[rr.below(others.len())];
                    let mut sj = (*s).clone();
                    sj["tq"] = json!(false);
                    let st = render::Style::from_json(&sj);
                    emit("SY", &sj, &st, &mut i);
                }
                for k in 0..3u64 {
                    let s = others[rr.below(others.len())];
                    let mut sj = (*s).clone();
                    sj["tq"] = json!(false);
                    sj["mix"] = json!(1 + rr.below(1_000_000) as u64 + k);
                    let st = render::Style::from_json(&sj);
                    emit("SY", &sj, &st, &mut i);
                }
                if has_default {
                    for k in 0..2u64 {
                        let mut sj = if k == 0 { json!({"nd": 1}) } else { (*others[rr.below(others.len())]).clone() };
                        sj["tq"] = json!(false);
                        sj["bare"] = json!(true);
                        let st = render::Style::from_json(&sj);
                        emit("BD", &sj, &st, &mut i);
                    }
                }
            }
        }
        "record-rulegen" | "replay-rulegen" => {
            // C19: templates (generated, or enumerated by MC_Rulegen: --in) -> the real rulegen command ->
            // its output parsed by the real parser and evaluated on the template and on mutations of it
            let seed: u64 = m.get("seed").and_then(|s| s.parse().ok()).unwrap_or(1);
            let n: usize = m.get("n").and_then(|s| s.parse().ok()).unwrap_or(100);
            let hard = m.get("hard").map(|v| v == "1").unwrap_or(false);
            let out = m.get("out").expect("--out");
            let scratch = m.get("scratch").expect("--scratch");
            let mut f = std::io::BufWriter::new(std::fs::File::create(out).unwrap());
            let mut r = Rng::new(seed);
            let mut docs: Vec<(J, bool)> = Vec::new();
            if cmd == "replay-rulegen" {
                for l in std::fs::read_to_string(m.get("in").expect("--in")).unwrap().lines() {
                    if !l.trim().is_empty() {
                        docs.push((serde_json::from_str(l).unwrap(), false));
                    }
                }
            } else {
                for k in 0..n {
                    let mut rr = r.fork();
                    let uniform = k % 4 != 3;
                    let mut g = gv::rulegen::TGen { r: &mut rr, hard };
                    docs.push((g.template(uniform), uniform));
                }
            }
            for (k, (doc, uniform)) in docs.iter().enumerate() {
                let mut rr = r.fork();
                let text = val::to_json_text(doc);
                let res = gv::rulegen::run_rulegen(&text, scratch);
                let mut line = json!({"i": k + 1, "doc": doc, "uniform": uniform, "template": text});
                let mut outj = json!({"kind": res["kind"], "msg": res["msg"], "rules": [], "odd": 0, "parses": false});
                if res["kind"] == "ok" {
                    let rules_text = res["text"].as_str().unwrap().to_string();
                    outj["text"] = json!(rules_text);
                    outj["stderr"] = res["stderr"].clone();
                    if rules_text.trim().is_empty() {
                        // nothing printed: no resource type with properties (or an error on stderr)
                        outj["parses"] = json!(true);
                        outj["empty"] = json!(true);
                    } else {
                        let pt = exec::parse_tree(&rules_text);
                        if pt["kind"] == "ok" {
                            outj["parses"] = json!(true);
                            let ex = gv::rulegen::extract(&pt["ast"]);
                            outj["rules"] = ex["rules"].clone();
                            outj["odd"] = ex["odd"].clone();
                            let mut obs = exec::observe(&rules_text, &text, false);
                            if let Some(o) = obs.as_object_mut() { o.remove("tree"); }
                            line["obs"] = obs;
                            let mut muts = Vec::new();
                            for _ in 0..3 {
                                if let Some((ty, p, d2)) = gv::rulegen::mutate(doc, &mut rr) {
                                    let mut o2 = exec::observe(&rules_text, &val::to_json_text(&d2), false);
                                    if let Some(o) = o2.as_object_mut() { o.remove("tree"); }
                                    muts.push(json!({"type": val::cps(&ty), "prop": val::cps(&p), "doc": d2, "obs": o2}));
                                }
                            }
                            line["muts"] = json!(muts);
                        } else {
                            outj["pterr"] = pt;
                        }
                    }
                }
                line["out"] = outj;
                if line.get("obs").is_none() {
                    line["obs"] = json!({"kind": "none"});
                    line["muts"] = json!([]);
                }
                strip_nulls(&mut line);
                writeln!(f, "{}", line).unwrap();
            }
        }
        "repeat-lib" => {
            // C05: the same library calls repeated within one process, with other evaluations in
            // between: run_checks (verbose and not), parse-tree, rulegen.  One line per job with the
            // digests of what each repetition returned.
            let seed: u64 = m.get("seed").and_then(|s| s.parse().ok()).unwrap_or(1);
            let n: usize = m.get("n").and_then(|s| s.parse().ok()).unwrap_or(50);
            let rounds: usize = m.get("rounds").and_then(|s| s.parse().ok()).unwrap_or(5);
            let cfg = cfg_of(m.get("cfg").map(|s| s.as_str()).unwrap_or("full"));
            let out = m.get("out").expect("--out");
            let scratch = m.get("scratch").expect("--scratch");
            let mut r = Rng::new(seed);
            let mut jobs: Vec<(String, String, String)> = Vec::new();
            for k in 0..n {
                let mut rr = r.fork();
                let (rules, data) = {
                    let mut g = gen::Gen { r: &mut rr, cfg: cfg.clone() };
                    let doc = g.doc();
                    let mut prog = g.program(&doc);
                    // rule names of different lengths from one rules file to the next
                    if k % 2 == 1 {
                        let first = prog["rules"][0]["n"].as_str().unwrap().to_string();
                        gv::xform::rename_rule(&mut prog, &first, &format!("{}_{}", first, "x".repeat(1 + k % 17)));
                    }
                    (render::render_file(&prog), val::to_json_text(&doc))
                };
                let template = {
                    let mut g = gv::rulegen::TGen { r: &mut rr, hard: k % 2 == 1 };
                    val::to_json_text(&g.template(k % 3 != 0))
                };
                jobs.push((rules, data, template));
            }
            // the command line in-process needs files
            let mut files: Vec<(String, String)> = Vec::new();
            for (j, (rules, data, _)) in jobs.iter().enumerate() {
                let rp = format!("{}/rep_{}_{}.guard", scratch, std::process::id(), j);
                let dp = format!("{}/rep_{}_{}.json", scratch, std::process::id(), j);
                std::fs::write(&rp, rules).unwrap();
                std::fs::write(&dp, data).unwrap();
                files.push((rp, dp));
            }
            let kinds = ["run_checks", "run_checks-verbose", "parse-tree", "rulegen", "validate-console", "validate-console-verbose", "validate-structured-json"];
            let mut res: Vec<Vec<Vec<J>>> = vec![vec![Vec::new(); kinds.len()]; n];
            let text_of = |x: Result<Result<String, String>, String>| match x {
                Ok(Ok(s)) => format!("ok:{}", s),
                Ok(Err(e)) => format!("err:{}", e),
                Err(p) => format!("panic:{}", p),
            };
            for _ in 0..rounds {
                for (j, (rules, data, template)) in jobs.iter().enumerate() {
                    let outs = [
                        text_of(exec::run_checks_raw(rules, data, false)),
                        text_of(exec::run_checks_raw(rules, data, true)),
                        exec::parse_tree_text(rules),
                        gv::rulegen::run_rulegen(template, scratch).to_string(),
                        exec::cli_in_process(&["validate", "-r", &files[j].0, "-d", &files[j].1, "-S", "all"], ""),
                        exec::cli_in_process(&["validate", "-r", &files[j].0, "-d", &files[j].1, "-S", "all", "-v"], ""),
                        exec::cli_in_process(&["validate", "-r", &files[j].0, "-d", &files[j].1, "--structured", "-o", "json", "-S", "none"], ""),
                    ];
                    for (k, o) in outs.iter().enumerate() {
                        let mut ls: Vec<&str> = o.lines().collect();
                        ls.sort();
                        res[j][k].push(json!({"exit": 0, "out": gv::xform::digest(o), "lines": gv::xform::digest(&ls.join("\n")),
                                              "err": "", "elines": ""}));
                    }
                }
            }
            // the same library call in a process of its own (`gv run`): what was evaluated earlier in this
            // process must not matter
            let me = std::env::current_exe().unwrap();
            for (j, (rp, dp)) in files.iter().enumerate() {
                for (k, verbose) in [(0usize, "0"), (1usize, "1")] {
                    if let Ok(o) = std::process::Command::new(&me).args(["run-raw", "--rules", rp, "--data", dp, "--verbose", verbose]).output() {
                        let text = String::from_utf8_lossy(&o.stdout).to_string();
                        let mut ls: Vec<&str> = text.lines().collect();
                        ls.sort();
                        res[j][k].push(json!({"exit": 0, "out": gv::xform::digest(&text), "lines": gv::xform::digest(&ls.join("\n")),
                                              "err": "", "elines": "", "fresh_process": true}));
                    }
                }
            }
            for (rp, dp) in &files {
                let _ = std::fs::remove_file(rp);
                let _ = std::fs::remove_file(dp);
            }
            let mut f = std::io::BufWriter::new(std::fs::File::create(out).unwrap());
            let mut i = 0usize;
            for j in 0..n {
                for (k, kind) in kinds.iter().enumerate() {
                    i += 1;
                    let class = if *kind == "rulegen" { "rulegen" } else if kind.starts_with("validate-console") { "console" } else { "bytes" };
                    let mut line = json!({"i": i, "cmd": "lib", "mode": kind, "class": class, "where": "in-process", "job": j,
                                          "runs": res[j][k]});
                    // keep the inputs of a job whose repetitions differ (for the replay file)
                    let differs = res[j][k].iter().any(|r| r["out"] != res[j][k][0]["out"]);
                    if differs {
                        line["inputs"] = json!({"rules": jobs[j].0, "data": jobs[j].1, "template": jobs[j].2});
                    }
                    writeln!(f, "{}", line).unwrap();
                }
            }
        }
        "cli-repeat" => {
            // debugging / replay aid: the command lines given on stdin (one JSON array of arguments per
            // line) executed in-process, the whole list `rounds` times; prints every output
            let rounds: usize = m.get("rounds").and_then(|s| s.parse().ok()).unwrap_or(2);
            let cmds: Vec<Vec<String>> = std::io::stdin().lock().lines().map(|l| serde_json::from_str(&l.unwrap()).unwrap()).collect();
            for round in 0..rounds {
                for (k, c) in cmds.iter().enumerate() {
                    let a: Vec<&str> = c.iter().map(|x| x.as_str()).collect();
                    println!("{}", json!({"round": round, "cmd": k, "out": exec::cli_in_process(&a, "")}));
                }
            }
        }
        "pt-formats" => {
            let text = std::fs::read_to_string(m.get("rules").expect("--rules")).unwrap();
            for a in [vec!["parse-tree", "--print-yaml"], vec!["parse-tree"], vec!["parse-tree", "--print-json"]] {
                let o = exec::cli_in_process_stdin(&a, &text);
                let body = o.strip_prefix("0:").unwrap_or("");
                println!("{:?}: head={:?} parsed={:?}", a, o.chars().take(60).collect::<String>(), serde_yaml::from_str::<J>(body).map(|_| "ok").map_err(|e| e.to_string()));
            }
        }
        "record-fn-table" => {
            // C18: the table-driven functions (regex_replace, json_parse, url_decode) over lists of
            // several strings, through a variable and directly; lines as record-eval (TraceEval)
            let out = m.get("out").expect("--out");
            let mut f = std::io::BufWriter::new(std::fs::File::create(out).unwrap());
            let q = |parts: Vec<J>| json!({"r":"q","q":parts,"all":true});
            let key = |k: &str| json!({"p":"key","k":val::cps(k)});
            let var = |n: &str| json!({"p":"var","n":n});
            let lists: Vec<Vec<&str>> = vec![
                vec!["x y", "hello world"], vec!["a b", "c d", "e f"], vec!["one two"], vec![], vec!["no-match", "x y"], vec!["x y", "no-match", "p q"],
                vec!["{\"k\":1}", "[1,2]", "7"], vec!["a%20b", "x%2Fy", "plain"], vec!["é ü", "日 本"],
            ];
            let calls: Vec<(&str, Vec<J>)> = vec![
                ("regex_replace", vec![json!({"r":"val","v":val::vstr("^(\\w+) (\\w+)$")}), json!({"r":"val","v":val::vstr("${2} ${1}")})]),
                ("regex_replace", vec![json!({"r":"val","v":val::vstr("^(\\w+) (\\w+)$")}), json!({"r":"val","v":val::vstr("${1}")})]),
                ("json_parse", vec![]),
                ("url_decode", vec![]),
            ];
            let mut i = 0usize;
            for list in &lists {
                for (fname, extra) in &calls {
                    for form in 0..3 {
                        let doc = val::vmap(vec![("a", val::vlist(list.iter().map(|s| val::vstr(s)).collect()))]);
                        let arg = match form {
                            0 => q(vec![key("a"), json!({"p":"idx"})]),
                            1 => q(vec![key("a")]),
                            _ => q(vec![var("src")]),
                        };
                        let mut a = vec![arg];
                        a.extend(extra.iter().cloned());
                        let mut lets = vec![];
                        if form == 2 {
                            lets.push(json!({"n":"src","v": q(vec![key("a"), json!({"p":"idx"})])}));
                        }
                        lets.push(json!({"n":"r","v":{"r":"fn","f":fname,"a":a}}));
                        let gac = |qq: Vec<J>, op: &str, on: bool, all: bool, rhs: Vec<J>| json!({"c":"gac","q":qq,"all":all,"neg":false,"op":op,"on":on,"rhs":rhs});
                        let first = list.first().map(|s| s.to_string()).unwrap_or_default();
                        let rules = json!([
                            {"n":"n","w":[],"lets":[{"n":"c","v":{"r":"fn","f":"count","a":[q(vec![var("r")])]}}],
                             "b":[[gac(vec![var("c")], "eq", false, true, vec![json!({"r":"val","v":val::vint(list.len() as i64)})])]]},
                            {"n":"some_first","w":[],"lets":[],"b":[[gac(vec![var("r")], "eq", false, false, vec![json!({"r":"val","v":val::vstr(&first)})])]]},
                            {"n":"all_first","w":[],"lets":[],"b":[[gac(vec![var("r")], "eq", false, true, vec![json!({"r":"val","v":val::vstr(&first)})])]]},
                            {"n":"strings","w":[],"lets":[],"b":[[gac(vec![var("r")], "is_string", false, true, vec![])]]},
                            {"n":"y_x","w":[],"lets":[],"b":[[gac(vec![var("r")], "in", false, true, vec![json!({"r":"val","v":val::vlist(vec![val::vstr("y x"), val::vstr("world hello"), val::vstr("b a"), val::vstr("d c"), val::vstr("f e"), val::vstr("two one"), val::vstr("q p"), val::vstr("x"), val::vstr("a b"), val::vstr("x/y"), val::vstr("plain")])})])]]}
                        ]);
                        let prog = json!({"lets": lets, "prules": [], "rules": rules});
                        let rules_text = render::render_file(&prog);
                        let data = val::to_json_text(&doc);
                        let mut obs = exec::observe(&rules_text, &data, false);
                        if obs["kind"] == "ok" {
                            let t = exec::status_tree(&obs["tree"]);
                            obs["tree"] = t;
                        }
                        i += 1;
                        let tab = gv::oracle::table(&prog, &doc);
                        writeln!(f, "{}", json!({"i": i, "prog": prog, "doc": doc, "obs": obs, "tab": tab})).unwrap();
                    }
                }
            }
        }
        "record-vkey" => {
            // variable keys in the middle of a query (`Resources.%targets.Type`): a small enumerated
            // family (documents x definitions of the variable x clauses), lines as record-eval --full
            let out = m.get("out").expect("--out");
            let full = m.get("full").map(|v| v == "1").unwrap_or(false);
            let mut f = std::io::BufWriter::new(std::fs::File::create(out).unwrap());
            let key = |k: &str| json!({"p":"key","k":val::cps(k)});
            let q = |parts: Vec<J>| json!({"r":"q","q":parts,"all":true});
            let qs = |parts: Vec<J>| json!({"r":"q","q":parts,"all":false});
            let res = |t: &str| val::vmap(vec![("Type", val::vstr(t)), ("Size", val::vint(1))]);
            let resources = val::vmap(vec![("r1", res("T")), ("r2", res("U")), ("r3", val::vmap(vec![("Size", val::vint(5))]))]);
            // the Bindings section decides what the variable resolves to
            let bindings: Vec<J> = vec![
                val::vmap(vec![("b1", val::vmap(vec![("Target", val::vstr("r1"))])), ("b2", val::vmap(vec![("Target", val::vstr("r2"))]))]),
                val::vmap(vec![("b1", val::vmap(vec![("Target", val::vstr("r1"))])), ("b2", val::vmap(vec![("Other", val::vint(0))]))]),
                val::vmap(vec![("b1", val::vmap(vec![("Other", val::vint(0))])), ("b2", val::vmap(vec![("Target", val::vstr("r1"))]))]),
                val::vmap(vec![("b1", val::vmap(vec![("Target", val::vstr("nope"))])), ("b2", val::vmap(vec![("Target", val::vstr("r3"))]))]),
                val::vmap(vec![("b1", val::vmap(vec![("Target", val::vlist(vec![val::vstr("r1"), val::vstr("r2")]))]))]),
                val::vmap(vec![("b1", val::vmap(vec![("Target", val::vint(5))]))]),
                val::vmap(vec![]),
            ];
            let defs: Vec<(&str, J)> = vec![
                ("query", q(vec![key("Bindings"), json!({"p":"all"}), key("Target")])),
                ("some-query", qs(vec![key("Bindings"), json!({"p":"all"}), key("Target")])),
                ("literal", json!({"r":"val","v":val::vstr("r1")})),
                ("literal-list", json!({"r":"val","v":val::vlist(vec![val::vstr("r2"), val::vstr("r1")])})),
                ("missing-key", json!({"r":"val","v":val::vstr("nope")})),
            ];
            let gac = |qq: Vec<J>, op: &str, on: bool, all: bool, rhs: Vec<J>| json!({"c":"gac","q":qq,"all":all,"neg":false,"op":op,"on":on,"rhs":rhs});
            let vk = json!({"p":"vkey","n":"t"});
            let tval = json!({"r":"val","v":val::vstr("T")});
            let clauses: Vec<J> = vec![
                gac(vec![key("Resources"), vk.clone(), key("Type")], "eq", false, true, vec![tval.clone()]),
                gac(vec![key("Resources"), vk.clone(), key("Type")], "eq", false, false, vec![tval.clone()]),
                gac(vec![key("Resources"), vk.clone(), key("Type")], "exists", false, true, vec![]),
                gac(vec![key("Resources"), vk.clone(), key("Type")], "exists", true, true, vec![]),
                gac(vec![key("Resources"), vk.clone()], "exists", false, true, vec![]),
                gac(vec![key("Resources"), vk.clone(), json!({"p":"idx"}), key("Size")], "ge", false, true, vec![json!({"r":"val","v":val::vint(1)})]),
                gac(vec![key("Resources"), vk.clone(), json!({"p":"at","i":0}), key("Type")], "eq", false, true, vec![tval.clone()]),
                gac(vec![key("Resources"), vk.clone(), json!({"p":"at","i":1})], "exists", false, true, vec![]),
                gac(vec![key("Missing"), vk.clone(), key("Type")], "exists", false, true, vec![]),
                gac(vec![key("Resources"), key("r1"), key("Type"), vk.clone()], "exists", false, true, vec![]),
            ];
            let mut i = 0usize;
            for b in &bindings {
                for (_dn, d) in &defs {
                    for (ci, c) in clauses.iter().enumerate() {
                        for scope in 0..2 {
                            // the variable at file level or inside the rule
                            let doc = val::vmap(vec![("Bindings", b.clone()), ("Resources", resources.clone())]);
                            let l = json!({"n":"t","v":d});
                            let (flets, rlets) = if scope == 0 { (json!([l]), json!([])) } else { (json!([]), json!([l])) };
                            let prog = json!({"lets": flets, "prules": [], "rules": [
                                {"n": format!("r{}", ci), "w": [], "lets": rlets, "b": [[c]]},
                                {"n": "other", "w": [], "lets": [], "b": [[gac(vec![key("Resources")], "exists", false, true, vec![])]]}]});
                            let rules = render::render_file(&prog);
                            let data = val::to_json_text(&doc);
                            let obs = if full {
                                exec::observe_full(&rules, &data)
                            } else {
                                let mut o = exec::observe(&rules, &data, false);
                                if o["kind"] == "ok" {
                                    let t = exec::status_tree(&o["tree"]);
                                    o["tree"] = t;
                                }
                                o
                            };
                            i += 1;
                            writeln!(f, "{}", json!({"i": i, "prog": prog, "doc": doc, "obs": obs})).unwrap();
                        }
                    }
                }
            }
        }
        "fuzz-case" => {
            let seed: u64 = m.get("seed").and_then(|s| s.parse().ok()).unwrap_or(1);
            let i: usize = m.get("i").and_then(|s| s.parse().ok()).unwrap_or(0);
            let c = gv::fuzz::case(seed, i);
            println!("{}", json!({"i": i, "kind": c.kind, "known_invalid": c.known_invalid, "rules": c.rules, "data": c.data, "template": c.template}));
        }
        "fuzz-worker" => {
            // C08: cases [from, to) of the (seed, index) case function through the library entry
            // points.  A `start` marker is flushed before each case: when the process dies (stack
            // overflow, abort) the parent knows which case it was.
            let seed: u64 = m.get("seed").and_then(|s| s.parse().ok()).unwrap_or(1);
            let from: usize = m.get("from").and_then(|s| s.parse().ok()).unwrap_or(0);
            let to: usize = m.get("to").and_then(|s| s.parse().ok()).unwrap_or(100);
            let out = m.get("out").expect("--out");
            let mut f = std::fs::OpenOptions::new().create(true).append(true).open(out).unwrap();
            let brief = |x: Result<Result<String, String>, String>| match x {
                Ok(Ok(_)) => json!({"kind": "ok"}),
                Ok(Err(e)) => json!({"kind": "err", "msg": e.chars().take(300).collect::<String>()}),
                Err(p) => json!({"kind": "panic", "msg": p.chars().take(300).collect::<String>()}),
            };
            for i in from..to {
                writeln!(f, "{}", json!({"start": i})).unwrap();
                f.flush().unwrap();
                let c = gv::fuzz::case(seed, i);
                let pt = exec::parse_tree_text(&c.rules);
                let accepted = !(pt.starts_with("err:") || pt.starts_with("panic:")) && !c.known_invalid;
                cfn_guard::verif_hooks::enable(true);
                let _ = cfn_guard::verif_hooks::drain();
                let lib = brief(exec::run_checks_raw(&c.rules, &c.data, false));
                let evs = cfn_guard::verif_hooks::drain();
                cfn_guard::verif_hooks::enable(false);
                let libv = brief(exec::run_checks_raw(&c.rules, &c.data, true));
                let evaluated = evs.iter().filter(|e| e.contains("\"rule_eval_begin\"")).count();
                let ptj = if pt.starts_with("panic:") {
                    json!({"kind": "panic", "msg": pt.chars().take(300).collect::<String>()})
                } else if pt.starts_with("err:") {
                    json!({"kind": "err", "msg": pt.chars().take(400).collect::<String>()})
                } else {
                    json!({"kind": "ok"})
                };
                let h = gv::xform::digest(&format!("{}\u{0}{}", c.rules, c.data));
                let line = json!({"i": i, "kind": c.kind, "accepted": accepted, "pt": ptj, "lib": lib, "libv": libv, "evaluated": evaluated, "h": h});
                writeln!(f, "{}", line).unwrap();
                f.flush().unwrap();
            }
        }
        "record-events" => {
            // hook-event stream of many evaluations, flattened (TraceMemo)
            let seed: u64 = m.get("seed").and_then(|s| s.parse().ok()).unwrap_or(1);
            let n: usize = m.get("n").and_then(|s| s.parse().ok()).unwrap_or(100);
            let cfg = cfg_of(m.get("cfg").map(|s| s.as_str()).unwrap_or("core"));
            let out = m.get("out").expect("--out");
            let mut f = std::io::BufWriter::new(std::fs::File::create(out).unwrap());
            let mut r = Rng::new(seed);
            let mut progs = std::io::BufWriter::new(std::fs::File::create(format!("{}.progs", out)).unwrap());
            for i in 1..=n {
                let mut rr = r.fork();
                let mut g = gen::Gen { r: &mut rr, cfg: cfg.clone() };
                let doc = g.doc();
                let prog = g.program(&doc);
                let rules = render::render_file(&prog);
                let data = val::to_json_text(&doc);
                cfn_guard::verif_hooks::enable(true);
                let _ = cfn_guard::verif_hooks::drain();
                let obs = exec::observe(&rules, &data, false);
                let evs = cfn_guard::verif_hooks::drain();
                cfn_guard::verif_hooks::enable(false);
                writeln!(progs, "{}", json!({"i": i, "prog": prog, "doc": doc, "rules_text": rules, "data_text": data})).unwrap();
                writeln!(f, "{}", json!({"e":"begin","i":i})).unwrap();
                for e in evs {
                    writeln!(f, "{}", e).unwrap();
                }
                let ok = obs["kind"] == "ok";
                writeln!(f, "{}", json!({"e":"end","i":i,"ok":ok,"check":true,"rules": if ok { obs["rules"].clone() } else { json!([]) }, "kind": obs["kind"]})).unwrap();
            }
        }
        "literal" => {
            // abstract value (stdin) -> Guard value literal
            let mut txt = String::new();
            std::io::Read::read_to_string(&mut std::io::stdin(), &mut txt).unwrap();
            let v: J = serde_json::from_str(&txt).unwrap();
            println!("{}", val::to_guard(&v, false));
        }
        "yaml2json" => {
            // YAML (stdin) -> JSON (stdout) through serde_yaml; used by the CLI extractors
            let mut txt = String::new();
            std::io::Read::read_to_string(&mut std::io::stdin(), &mut txt).unwrap();
            match serde_yaml::from_str::<serde_json::Value>(&txt) {
                Ok(v) => println!("{}", v),
                Err(e) => {
                    eprintln!("yaml error: {}", e);
                    std::process::exit(3);
                }
            }
        }
        "render-many" => {
            // {"prog":..,"doc":..} per line -> {"rules":text,"data":text} per line
            let stdin = std::io::stdin();
            for l in stdin.lock().lines() {
                let l = l.unwrap();
                if l.trim().is_empty() { continue; }
                let j: J = serde_json::from_str(&l).unwrap();
                // an optional "style" (as printed by MC_Syntax, plus "bare") selects the spelling; "bare_ok"
                // tells whether the first rule could be written as bare clauses
                let rules = if j["prog"].is_null() {
                    J::Null
                } else if j["style"].is_object() {
                    json!(render::render_file_with(&j["prog"], &render::Style::from_json(&j["style"])))
                } else {
                    json!(render::render_file(&j["prog"]))
                };
                let data = if j["doc"].is_null() { J::Null } else { json!(val::to_json_text(&j["doc"])) };
                let bare_ok = !j["prog"].is_null() && gv::xform::bare_ok(&j["prog"]["rules"][0]);
                println!("{}", json!({"rules": rules, "data": data, "bare_ok": bare_ok}));
            }
        }
        "gen" => {
            // n random (prog, doc) pairs as JSON lines (no execution)
            let seed: u64 = m.get("seed").and_then(|s| s.parse().ok()).unwrap_or(1);
            let n: usize = m.get("n").and_then(|s| s.parse().ok()).unwrap_or(10);
            let cfg = cfg_of(m.get("cfg").map(|s| s.as_str()).unwrap_or("core"));
            let mut r = Rng::new(seed);
            for _ in 0..n {
                let mut rr = r.fork();
                let mut g = gen::Gen { r: &mut rr, cfg: cfg.clone() };
                let doc = g.doc();
                let prog = g.program(&doc);
                println!("{}", json!({"prog": prog, "doc": doc, "rules": render::render_file(&prog), "data": val::to_json_text(&doc)}));
            }
        }
        "reobserve" => {
            // re-run one recorded line against the current implementation
            let stdin = std::io::stdin();
            for l in stdin.lock().lines() {
                let l = l.unwrap();
                if l.trim().is_empty() { continue; }
                let mut j: J = serde_json::from_str(&l).unwrap();
                let mut obs = exec::observe(&render::render_file(&j["prog"]), &val::to_json_text(&j["doc"]), false);
                if obs["kind"] == "ok" {
                    let t = exec::status_tree(&obs["tree"]);
                    obs["tree"] = t;
                }
                j["obs"] = obs;
                j["i"] = json!(1);
                println!("{}", j);
            }
        }
        "replay-prog" => {
            // generic spec -> impl replay: {prog, doc, expect:{kind,file,rules}} per line
            let cases: Vec<String> = std::fs::read_to_string(m.get("cases").expect("--cases")).unwrap().lines().map(|l| l.to_string()).collect();
            let out = m.get("out").expect("--out").clone();
            let mut f = std::io::BufWriter::new(std::fs::File::create(&out).unwrap());
            let mut nm = 0;
            let mut kinds: HashMap<String, usize> = HashMap::new();
            for l in &cases {
                let c: J = serde_json::from_str(l).unwrap();
                let rules = render::render_file(&c["prog"]);
                let data = val::to_json_text(&c["doc"]);
                let obs = exec::observe(&rules, &data, false);
                *kinds.entry(obs["kind"].as_str().unwrap_or("?").to_string()).or_insert(0) += 1;
                let e = &c["expect"];
                let same = if e["kind"] == "ok" {
                    obs["kind"] == "ok" && obs["file"] == e["file"] && obs["rules"] == e["rules"]
                } else {
                    obs["kind"] == "err"
                };
                if !same {
                    nm += 1;
                    let mut o = obs.clone();
                    if let Some(m) = o.as_object_mut() { m.remove("tree"); }
                    writeln!(f, "{}", json!({"kind":"spec-vs-impl","prog":c["prog"],"doc":c["doc"],"rules_text":rules,"data_text":data,"expected":e,"observed":o})).unwrap();
                }
            }
            println!("{}", json!({"cases": cases.len(), "evaluations": cases.len(), "mismatches": nm, "kinds": kinds}));
        }
        "replay-cnf" => {
            let tables: J = serde_json::from_str(&std::fs::read_to_string(m.get("tables").expect("--tables")).unwrap()).unwrap();
            let cases: Vec<String> = std::fs::read_to_string(m.get("cases").expect("--cases")).unwrap().lines().map(|l| l.to_string()).collect();
            let threads: usize = m.get("threads").and_then(|s| s.parse().ok()).unwrap_or(8);
            let out = m.get("out").expect("--out").clone();
            let chunk = (cases.len() + threads - 1) / threads.max(1);
            let tables = std::sync::Arc::new(tables);
            let cases = std::sync::Arc::new(cases);
            let mut hs = Vec::new();
            for t in 0..threads {
                let tables = tables.clone();
                let cases = cases.clone();
                hs.push(std::thread::spawn(move || {
                    let lo = (t * chunk).min(cases.len());
                    let hi = ((t + 1) * chunk).min(cases.len());
                    let mut mism: Vec<J> = Vec::new();
                    for i in lo..hi {
                        let c: J = serde_json::from_str(&cases[i]).unwrap();
                        if let Some(x) = gv::cnf::replay_case(&tables, &c) {
                            mism.push(x);
                        }
                    }
                    mism
                }));
            }
            let mut f = std::io::BufWriter::new(std::fs::File::create(&out).unwrap());
            let mut nm = 0;
            for h in hs {
                for x in h.join().unwrap() {
                    nm += 1;
                    writeln!(f, "{}", x).unwrap();
                }
            }
            println!("{}", json!({"cases": cases.len(), "evaluations": cases.len(), "mismatches": nm}));
        }
        "replay-e1" => {
            // spec -> impl: execute TLC's E1 cases against the implementation
            let tables: J = serde_json::from_str(&std::fs::read_to_string(m.get("tables").expect("--tables")).unwrap()).unwrap();
            let cases: Vec<String> = std::fs::read_to_string(m.get("cases").expect("--cases")).unwrap().lines().map(|l| l.to_string()).collect();
            let threads: usize = m.get("threads").and_then(|s| s.parse().ok()).unwrap_or(8);
            let out = m.get("out").expect("--out").clone();
            let chunk = (cases.len() + threads - 1) / threads.max(1);
            let tables = std::sync::Arc::new(tables);
            let cases = std::sync::Arc::new(cases);
            let mut hs = Vec::new();
            for t in 0..threads {
                let tables = tables.clone();
                let cases = cases.clone();
                hs.push(std::thread::spawn(move || {
                    let lo = t * chunk;
                    let hi = ((t + 1) * chunk).min(cases.len());
                    let mut mism: Vec<J> = Vec::new();
                    let mut evals = 0usize;
                    let mut direct = 0usize;
                    for i in lo..hi {
                        let c: J = serde_json::from_str(&cases[i]).unwrap();
                        let (e, d, mm) = gv::e1::replay_case(&tables, &c);
                        evals += e;
                        direct += d;
                        mism.extend(mm);
                    }
                    (evals, direct, mism)
                }));
            }
            let mut evals = 0;
            let mut direct = 0;
            let mut f = std::io::BufWriter::new(std::fs::File::create(&out).unwrap());
            let mut nm = 0;
            for h in hs {
                let (e, d, mm) = h.join().unwrap();
                evals += e;
                direct += d;
                for x in mm {
                    nm += 1;
                    writeln!(f, "{}", x).unwrap();
                }
            }
            println!("{}", json!({"cases": cases.len(), "evaluations": evals, "direct_relations": direct, "mismatches": nm}));
        }
        "run-raw" => {
            // one library call, printed the way repeat-lib digests it
            let rules = std::fs::read_to_string(m.get("rules").expect("--rules")).unwrap();
            let data = std::fs::read_to_string(m.get("data").expect("--data")).unwrap();
            let verbose = m.get("verbose").map(|v| v == "1").unwrap_or(false);
            let t = match exec::run_checks_raw(&rules, &data, verbose) {
                Ok(Ok(s)) => format!("ok:{}", s),
                Ok(Err(e)) => format!("err:{}", e),
                Err(p) => format!("panic:{}", p),
            };
            print!("{}", t);
        }
        "run" => {
            let rules = std::fs::read_to_string(m.get("rules").expect("--rules")).unwrap();
            let data = std::fs::read_to_string(m.get("data").expect("--data")).unwrap();
            let verbose = m.get("verbose").map(|v| v == "1").unwrap_or(false);
            match exec::run_checks_raw(&rules, &data, verbose) {
                Ok(Ok(s)) => println!("{}", s),
                Ok(Err(e)) => println!("ERR {}", e),
                Err(p) => println!("PANIC {}", p),
            }
        }
        _ => {
            eprintln!("unknown command {}", cmd);
            std::process::exit(2);
        }
    }
}
