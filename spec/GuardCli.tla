------------------------------ MODULE GuardCli ------------------------------
(***************************************************************************)
(* The `cfn-guard validate` driver as a state machine over an abstract     *)
(* scenario.  Mirrors commands/validate.rs (execute, evaluate_rule,        *)
(* evaluate_against_data_input), reporters/validate/structured.rs,         *)
(* reporters/validate/xml.rs + reporters/mod.rs (JunitReporter) and        *)
(* main.rs (an Err becomes exit status 255).                               *)
(*                                                                         *)
(* Scenario:                                                               *)
(*   rules : sequence of "ok" | "broken" | "empty"        (rules files)    *)
(*   data  : sequence of "ok" | "bad"                     (data files)     *)
(*   ev    : [<<r, d>> -> "PASS" | "FAIL" | "SKIP" | "ERR"] evaluation of   *)
(*           rules file r on data file d (file status or evaluation error) *)
(*   missing : a given path does not exist                                 *)
(*   conflict: the input-parameter files clash with each other / the data  *)
(*   path  : "plain" | "structured" (json / yaml / sarif) | "junit"        *)
(* State: what the driver has done so far; one action per loop body.       *)
(***************************************************************************)
EXTENDS Integers, Sequences, FiniteSets, TLC

ExitOk == 0  ExitParse == 5  ExitFail == 19  ExitErr == 255

InitState == [phase |-> "check-paths", r |-> 1, d |-> 1, exit |-> ExitOk, parsed |-> <<>>,
              pairs |-> <<>>, done |-> FALSE, aborted |-> FALSE, fails |-> 0]

Abort(s) == [s EXCEPT !.done = TRUE, !.aborted = TRUE, !.exit = ExitErr]
Finish(s) == [s EXCEPT !.done = TRUE]

\* one step of the driver on scenario `scn`
Step(scn, s) ==
  LET nr == Len(scn.rules)
      nd == Len(scn.data) IN
  CASE s.done -> s
    \* validate_path for every argument, then every data file is read and parsed first
    [] s.phase = "check-paths" ->
         IF scn.missing THEN Abort(s) ELSE [s EXCEPT !.phase = "load-data", !.d = 1]
    [] s.phase = "load-data" ->
         IF s.d > nd THEN [s EXCEPT !.phase = "merge-params"]
         ELSE IF scn.data[s.d] = "bad" THEN Abort(s)                  \* build_data_file error
         ELSE [s EXCEPT !.d = s.d + 1]
    \* input parameters: the structured paths merge them into every data file up front, the plain
    \* path merges per data file while evaluating; an overlap is an error either way
    [] s.phase = "merge-params" ->
         [s EXCEPT !.phase = IF scn.path = "plain" THEN "plain-rule" ELSE "parse-all", !.r = 1, !.d = 1]
    \* ---- plain path: per rules file { parse; per data file evaluate }; last non-zero wins
    [] s.phase = "plain-rule" ->
         IF s.r > nr THEN Finish(s)
         ELSE IF scn.rules[s.r] = "broken" THEN [s EXCEPT !.exit = ExitParse, !.r = s.r + 1]
         ELSE IF scn.rules[s.r] = "empty" THEN [s EXCEPT !.r = s.r + 1]
         ELSE [s EXCEPT !.phase = "plain-pair", !.d = 1, !.fails = 0]
    [] s.phase = "plain-pair" ->
         IF s.d > nd
         THEN [s EXCEPT !.phase = "plain-rule", !.r = s.r + 1,
                        !.exit = IF s.fails > 0 THEN ExitFail ELSE s.exit]
         ELSE LET e == scn.ev[<<s.r, s.d>>] IN
              IF scn.conflict \/ e = "ERR" THEN Abort(s)
              ELSE [s EXCEPT !.d = s.d + 1, !.pairs = Append(s.pairs, <<s.r, s.d, e>>),
                             !.fails = s.fails + (IF e = "FAIL" THEN 1 ELSE 0)]
    \* ---- structured paths: all rules files are parsed first
    [] s.phase = "parse-all" ->
         IF s.r > nr THEN (IF scn.conflict THEN Abort(s) ELSE [s EXCEPT !.phase = "s-pair", !.d = 1, !.r = 1, !.fails = 0])
         ELSE IF scn.rules[s.r] = "broken" THEN [s EXCEPT !.exit = ExitParse, !.r = s.r + 1]
         ELSE [s EXCEPT !.r = s.r + 1]
    \* per data file, per parsed rules file
    [] s.phase = "s-pair" ->
         IF s.d > nd THEN
           IF scn.path = "junit"
           \* update_exit_code: a failure does not override a parse error
           THEN Finish([s EXCEPT !.exit = IF s.fails > 0 /\ s.exit # ExitParse THEN ExitFail ELSE s.exit])
           ELSE Finish(s)
         ELSE IF s.r > nr THEN [s EXCEPT !.d = s.d + 1, !.r = 1]
         ELSE IF scn.rules[s.r] # "ok" THEN [s EXCEPT !.r = s.r + 1]
         ELSE LET e == scn.ev[<<s.r, s.d>>] IN
              IF e = "ERR" THEN Abort(s)
              ELSE [s EXCEPT !.r = s.r + 1, !.pairs = Append(s.pairs, <<s.r, s.d, e>>),
                             !.fails = s.fails + (IF e = "FAIL" THEN 1 ELSE 0),
                             \* CommonStructuredReporter sets the failure code at once (overwriting 5)
                             !.exit = IF e = "FAIL" /\ scn.path = "structured" THEN ExitFail ELSE s.exit]

RECURSIVE RunFrom(_, _)
RunFrom(scn, s) == IF s.done THEN s ELSE RunFrom(scn, Step(scn, s))
Run(scn) == RunFrom(scn, InitState)

---------------------------------------------------------------------------
(* C06: the exit codes the property allows for a scenario                  *)
OkPairs(scn) == {p \in (1 .. Len(scn.rules)) \X (1 .. Len(scn.data)) : scn.rules[p[1]] = "ok" /\ scn.data[p[2]] = "ok"}
AnyError(scn) ==
  \/ scn.missing
  \* a parameter conflict is met as soon as a pair is evaluated (plain) / before any (structured)
  \/ (scn.conflict /\ (scn.path # "plain" \/ OkPairs(scn) # {}))
  \/ \E d \in 1 .. Len(scn.data) : scn.data[d] = "bad"
  \/ \E p \in OkPairs(scn) : scn.ev[p] = "ERR"
AnyFail(scn) == \E p \in OkPairs(scn) : scn.ev[p] = "FAIL"
AnyBroken(scn) == \E r \in 1 .. Len(scn.rules) : scn.rules[r] = "broken"

ExitAllowed(scn) ==
  IF AnyError(scn) THEN (0 .. 255) \ {ExitOk, ExitFail}
  ELSE IF ~AnyBroken(scn) THEN (IF AnyFail(scn) THEN {ExitFail} ELSE {ExitOk})
  ELSE IF AnyFail(scn) THEN {ExitParse, ExitFail} ELSE {ExitParse}

(* C12: the pairs a batch run evaluates and their outcomes are exactly the  *)
(* singleton outcomes (ev is a function of the pair alone: no state is      *)
(* carried from one pair to the next)                                       *)
PairsEvaluated(scn) == {<<p[1], p[2], scn.ev[p]>> : p \in OkPairs(scn)}
=============================================================================
