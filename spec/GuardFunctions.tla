--------------------------- MODULE GuardFunctions ---------------------------
(***************************************************************************)
(* Built-in functions on abstract values (docs/FUNCTIONS.md;               *)
(* guard/src/rules/functions/*.rs, eval_context.rs:1286-1470).             *)
(*                                                                         *)
(* A call receives the resolved results of each argument and returns       *)
(*   [err |-> FALSE, vs |-> sequence of values]   (element-wise; values of *)
(*        unsupported type and unresolved members are skipped)             *)
(*   [err |-> TRUE, e |-> kind]                                            *)
(* kind = "unknown" means: outside what this specification can compute     *)
(* (then nothing is asserted about the implementation's result).           *)
(* json_parse, url_decode and regex_replace are table-driven: `tab` holds  *)
(* reference results computed by an independent implementation in the      *)
(* harness (entries [f, a, ok, v]).                                        *)
(* A result value carries the path of the value it was computed from and   *)
(* origin "l" (made by the rules file).                                    *)
(***************************************************************************)
EXTENDS GuardOps

FOk(vs) == [err |-> FALSE, vs |-> vs]
FErr(e) == [err |-> TRUE, e |-> e]

Made(v, src) == [x \in (DOMAIN v) \cup {"p", "o"} |-> IF x = "p" THEN src.p ELSE IF x = "o" THEN "l" ELSE v[x]]
StrV(cp, src) == [t |-> "str", v |-> cp, p |-> src.p, o |-> "l"]
IntV(n, src) == [t |-> "int", v |-> n, p |-> src.p, o |-> "l"]
RootSrc == [p |-> <<>>]

Minus == 45  Plus == 43  Dot == 46  Zero == 48  Nine == 57

IsDigit(c) == c >= Zero /\ c <= Nine
RECURSIVE DigitsVal(_, _, _)
DigitsVal(cp, i, acc) == IF i > Len(cp) THEN acc ELSE DigitsVal(cp, i + 1, acc * 10 + (cp[i] - Zero))

\* Rust str::parse::<i64>: optional sign, at least one digit, nothing else.  Numbers beyond the
\* modelled range are "unknown".
ParseIntStr(cp) ==
  LET signed == Len(cp) > 0 /\ cp[1] \in {Minus, Plus}
      body == IF signed THEN SubSeq(cp, 2, Len(cp)) ELSE cp IN
  IF Len(body) = 0 \/ \E i \in 1 .. Len(body) : ~IsDigit(body[i]) THEN [ok |-> FALSE, unknown |-> FALSE, v |-> 0]
  ELSE IF Len(body) > 7 THEN [ok |-> FALSE, unknown |-> TRUE, v |-> 0]
  ELSE LET n == DigitsVal(body, 1, 0) IN
       [ok |-> TRUE, unknown |-> FALSE, v |-> IF signed /\ cp[1] = Minus THEN 0 - n ELSE n]

\* decimal text -> milli-units: [sign] digits [. digits{1,3}] ; anything else Rust may still
\* accept (exponents, inf, nan, ".5", "5.") is "unknown"; text with other characters is an error
ParseFloatStr(cp) ==
  LET signed == Len(cp) > 0 /\ cp[1] \in {Minus, Plus}
      body == IF signed THEN SubSeq(cp, 2, Len(cp)) ELSE cp
      dots == {i \in 1 .. Len(body) : body[i] = Dot}
      clean == \A i \in 1 .. Len(body) : IsDigit(body[i]) \/ body[i] = Dot
      letters == \E i \in 1 .. Len(body) : body[i] \in {101, 69, 105, 73, 110, 78}     \* e E i I n N
  IN
  IF Len(body) = 0 THEN [ok |-> FALSE, unknown |-> FALSE, v |-> 0]
  ELSE IF ~clean THEN [ok |-> FALSE, unknown |-> letters, v |-> 0]
  ELSE IF Cardinality(dots) > 1 THEN [ok |-> FALSE, unknown |-> FALSE, v |-> 0]
  ELSE IF dots = {} THEN
       (IF Len(body) > 6 THEN [ok |-> FALSE, unknown |-> TRUE, v |-> 0]
        ELSE [ok |-> TRUE, unknown |-> FALSE,
              v |-> (IF signed /\ cp[1] = Minus THEN -1 ELSE 1) * 1000 * DigitsVal(body, 1, 0)])
  ELSE LET d == CHOOSE i \in dots : TRUE
           whole == SubSeq(body, 1, d - 1)
           frac == SubSeq(body, d + 1, Len(body)) IN
       IF Len(whole) = 0 \/ Len(frac) = 0 \/ Len(frac) > 3 \/ Len(whole) > 6
       THEN [ok |-> FALSE, unknown |-> TRUE, v |-> 0]
       ELSE LET scale == IF Len(frac) = 1 THEN 100 ELSE IF Len(frac) = 2 THEN 10 ELSE 1
                m == 1000 * DigitsVal(whole, 1, 0) + scale * DigitsVal(frac, 1, 0) IN
            [ok |-> TRUE, unknown |-> FALSE, v |-> IF signed /\ cp[1] = Minus THEN 0 - m ELSE m]

\* i64 / f64 Display
IntText(n) == IF n < 0 THEN <<Minus>> \o Digits(0 - n) ELSE Digits(n)
FltText(m) ==
  LET a == IF m < 0 THEN 0 - m ELSE m
      w == a \div 1000
      f == a % 1000
      fr == IF f = 0 THEN <<>>
            ELSE IF (f % 100) = 0 THEN <<Dot, Zero + (f \div 100)>>
            ELSE IF (f % 10) = 0 THEN <<Dot, Zero + (f \div 100), Zero + ((f \div 10) % 10)>>
            ELSE <<Dot, Zero + (f \div 100), Zero + ((f \div 10) % 10), Zero + (f % 10)>>
  IN (IF m < 0 THEN <<Minus>> ELSE <<>>) \o Digits(w) \o fr

IsSentinelInt(n) == n > 1000000 \/ n < -1000000
IsSentinelFlt(m) == m > 1000000000 \/ m < -1000000000

\* case mapping on the modelled alphabet (ASCII letters, e-acute); sharp s upper-cases to "SS"
Upper(c) == IF c >= 97 /\ c <= 122 THEN <<c - 32>> ELSE IF c = 233 THEN <<201>>
            ELSE IF c = 223 THEN <<83, 83>> ELSE <<c>>
Lower(c) == IF c >= 65 /\ c <= 90 THEN <<c + 32>> ELSE IF c = 201 THEN <<233>> ELSE <<c>>
MapStr(cp, F(_)) == Concat([i \in 1 .. Len(cp) |-> F(cp[i])])
\* characters whose case mapping this specification knows
KnownCase(cp) == \A i \in 1 .. Len(cp) : cp[i] < 128 \/ cp[i] \in {233, 201, 223, 26085, 26412, 128512}

\* UTF-8
ByteLen(c) == IF c < 128 THEN 1 ELSE IF c < 2048 THEN 2 ELSE IF c < 65536 THEN 3 ELSE 4
RECURSIVE BytesUpTo(_, _)
BytesUpTo(cp, k) == IF k = 0 THEN 0 ELSE BytesUpTo(cp, k - 1) + ByteLen(cp[k])
StrBytes(cp) == BytesUpTo(cp, Len(cp))
\* number of characters whose bytes end exactly at byte offset b, or -1 if b is inside a character
CharsAt(cp, b) ==
  LET ks == {k \in 0 .. Len(cp) : BytesUpTo(cp, k) = b} IN
  IF ks = {} THEN -1 ELSE CHOOSE k \in ks : TRUE

\* `*n as u16` for the offsets of substring (eval_context.rs:1380-1396)
AsU16Int(n) == ((n % 65536) + 65536) % 65536
AsU16Flt(m) == LET t == IF m < 0 THEN 0 ELSE m \div 1000 IN IF t > 65535 THEN 65535 ELSE t

ArgVals(rs) == SelectSeq(rs, NotUnres)

TabLookup(tab, f, a) ==
  LET idx == {i \in 1 .. Len(tab) : tab[i].f = f /\ tab[i].a = a} IN
  IF idx = {} THEN [found |-> FALSE] ELSE [found |-> TRUE, e |-> tab[CHOOSE i \in idx : TRUE]]

\* element-wise helper: F(value) returns [k |-> "some", v] | [k |-> "none"] | [k |-> "err", e]
ElementWise(rs, F(_)) ==
  LET rsv == [i \in 1 .. Len(rs) |-> IF IsUnres(rs[i]) THEN [k |-> "none"] ELSE F(rs[i].v)]
      errs == {i \in 1 .. Len(rsv) : rsv[i].k = "err"} IN
  IF errs # {} THEN FErr(rsv[CHOOSE i \in errs : \A j \in errs : i <= j].e)
  ELSE LET keep == SelectSeq(rsv, LAMBDA x : x.k = "some") IN FOk([i \in 1 .. Len(keep) |-> keep[i].v])

Some(v) == [k |-> "some", v |-> v]
None == [k |-> "none"]
EErr(e) == [k |-> "err", e |-> e]

\* Call(f, args, tab): args = sequence of result sequences
Call(f, args, tab) ==
  CASE f = "count" ->
         \* DOC: the number of resolved values of the query
         LET rs == args[1]
             n == Len(ArgVals(rs))
             src == IF Len(rs) = 0 THEN RootSrc ELSE rs[1].v IN
         FOk(<<IntV(n, src)>>)
    [] f = "join" ->
         IF Len(args[2]) = 0 THEN FErr("function-argument-without-values")
         ELSE LET d == args[2][1] IN
         IF IsUnres(d) \/ d.v.t \notin {"str", "chr"} THEN FErr("join-delimiter")
         ELSE LET delim == IF d.v.t = "str" THEN d.v.v ELSE <<d.v.v>>
                  rs == args[1] IN
              IF \E i \in 1 .. Len(rs) : IsUnres(rs[i]) \/ rs[i].v.t # "str" THEN FErr("join-non-string")
              ELSE LET parts == [i \in 1 .. Len(rs) |-> rs[i].v.v \o (IF i < Len(rs) THEN delim ELSE <<>>)]
                       src == IF Len(rs) = 0 THEN RootSrc ELSE rs[1].v IN
                   FOk(<<StrV(Concat(parts), src)>>)
    [] f = "to_upper" ->
         ElementWise(args[1], LAMBDA v : IF v.t # "str" THEN None
                                         ELSE IF ~KnownCase(v.v) THEN EErr("unknown")
                                         ELSE Some(StrV(MapStr(v.v, Upper), v)))
    [] f = "to_lower" ->
         ElementWise(args[1], LAMBDA v : IF v.t # "str" THEN None
                                         ELSE IF ~KnownCase(v.v) THEN EErr("unknown")
                                         ELSE Some(StrV(MapStr(v.v, Lower), v)))
    [] f = "substring" ->
         IF Len(args[2]) = 0 \/ Len(args[3]) = 0 THEN FErr("function-argument-without-values")
         ELSE
           LET off(r) == IF IsUnres(r) THEN -1
                         ELSE IF r.v.t = "int" THEN AsU16Int(r.v.v)
                         ELSE IF r.v.t = "flt" THEN AsU16Flt(r.v.v) ELSE -1
               from == off(args[2][1])
               to == off(args[3][1]) IN
           IF from < 0 \/ to < 0 THEN FErr("substring-offset-not-a-number")
           ELSE ElementWise(args[1], LAMBDA v :
                  IF v.t # "str" THEN None
                  \* DOC: strings for which the offsets are out of range are skipped
                  ELSE IF Len(v.v) = 0 \/ ~(from < to) \/ from > StrBytes(v.v) \/ to > StrBytes(v.v) THEN None
                  ELSE LET a == CharsAt(v.v, from)
                           b == CharsAt(v.v, to) IN
                       \* byte offsets inside a multi-byte character are out of range as well
                       IF a < 0 \/ b < 0 THEN None
                       ELSE Some(StrV(SubSeq(v.v, a + 1, b), v)))
    [] f = "parse_int" ->
         ElementWise(args[1], LAMBDA v :
           CASE v.t = "str" -> LET r == ParseIntStr(v.v) IN
                               IF r.ok THEN Some(IntV(r.v, v))
                               ELSE IF r.unknown THEN EErr("unknown") ELSE EErr("parse_int")
             [] v.t = "int" -> Some(IntV(v.v, v))
             [] v.t = "flt" -> IF IsSentinelFlt(v.v) THEN EErr("unknown")
                               ELSE Some(IntV(IF v.v < 0 THEN 0 - ((0 - v.v) \div 1000) ELSE v.v \div 1000, v))
             [] v.t = "chr" -> IF IsDigit(v.v) THEN Some(IntV(v.v - Zero, v)) ELSE EErr("parse_int")
             [] OTHER -> None)
    [] f = "parse_float" ->
         ElementWise(args[1], LAMBDA v :
           CASE v.t = "str" -> LET r == ParseFloatStr(v.v) IN
                               IF r.ok THEN Some([t |-> "flt", v |-> r.v, p |-> v.p, o |-> "l"])
                               ELSE IF r.unknown THEN EErr("unknown") ELSE EErr("parse_float")
             [] v.t = "int" -> IF IsSentinelInt(v.v) THEN EErr("unknown")
                               ELSE Some([t |-> "flt", v |-> 1000 * v.v, p |-> v.p, o |-> "l"])
             [] v.t = "flt" -> Some([t |-> "flt", v |-> v.v, p |-> v.p, o |-> "l"])
             [] v.t = "chr" -> IF IsDigit(v.v) THEN Some([t |-> "flt", v |-> 1000 * (v.v - Zero), p |-> v.p, o |-> "l"])
                               ELSE EErr("parse_float")
             [] OTHER -> None)
    [] f = "parse_boolean" ->
         ElementWise(args[1], LAMBDA v :
           CASE v.t = "bool" -> Some([t |-> "bool", v |-> v.v, p |-> v.p, o |-> "l"])
             [] v.t = "str" ->
                  IF ~KnownCase(v.v) THEN EErr("unknown")
                  ELSE LET lc == MapStr(v.v, Lower) IN
                       IF lc = <<116, 114, 117, 101>> THEN Some([t |-> "bool", v |-> TRUE, p |-> v.p, o |-> "l"])
                       ELSE IF lc = <<102, 97, 108, 115, 101>> THEN Some([t |-> "bool", v |-> FALSE, p |-> v.p, o |-> "l"])
                       ELSE EErr("parse_boolean")
             [] OTHER -> None)
    [] f = "parse_string" ->
         ElementWise(args[1], LAMBDA v :
           CASE v.t = "int" -> IF IsSentinelInt(v.v) THEN EErr("unknown") ELSE Some(StrV(IntText(v.v), v))
             [] v.t = "flt" -> IF IsSentinelFlt(v.v) THEN EErr("unknown") ELSE Some(StrV(FltText(v.v), v))
             [] v.t = "bool" -> Some(StrV(IF v.v THEN <<116, 114, 117, 101>> ELSE <<102, 97, 108, 115, 101>>, v))
             [] v.t = "str" -> Some(StrV(v.v, v))
             [] v.t = "chr" -> Some(StrV(<<v.v>>, v))
             [] OTHER -> None)
    [] f = "parse_char" ->
         ElementWise(args[1], LAMBDA v :
           CASE v.t = "int" -> IF v.v < 0 \/ v.v > 9 THEN EErr("parse_char")
                               ELSE Some([t |-> "chr", v |-> Zero + v.v, p |-> v.p, o |-> "l"])
             [] v.t = "str" -> IF StrBytes(v.v) > 1 THEN EErr("parse_char")       \* byte length!
                               ELSE IF Len(v.v) = 0 THEN None
                               ELSE Some([t |-> "chr", v |-> v.v[1], p |-> v.p, o |-> "l"])
             [] v.t = "chr" -> Some(StrV(<<v.v>>, v))
             [] OTHER -> None)
    [] f \in {"json_parse", "url_decode"} ->
         ElementWise(args[1], LAMBDA v :
           IF v.t # "str" THEN None
           ELSE LET r == TabLookup(tab, f, <<v.v>>) IN
                IF ~r.found THEN EErr("unknown")
                ELSE IF r.e.ok THEN Some(WithPathsO(r.e.v, v.p, "l"))
                ELSE IF f = "json_parse" THEN EErr("json_parse") ELSE None)
    [] f = "regex_replace" ->
         IF Len(args[2]) = 0 \/ Len(args[3]) = 0 THEN FErr("function-argument-without-values")
         ELSE LET a2 == args[2][1]  a3 == args[3][1] IN
         IF IsUnres(a2) \/ a2.v.t # "str" \/ IsUnres(a3) \/ a3.v.t # "str" THEN FErr("regex_replace-argument")
         ELSE ElementWise(args[1], LAMBDA v :
                IF v.t # "str" THEN None
                ELSE LET r == TabLookup(tab, f, <<v.v, a2.v.v, a3.v.v>>) IN
                     IF ~r.found THEN EErr("unknown")
                     ELSE IF r.e.ok THEN Some(WithPathsO(r.e.v, v.p, "l")) ELSE EErr("regex_replace"))
    [] OTHER -> FErr("unknown")
=============================================================================
