------------------------------- MODULE MC_E1 -------------------------------
(***************************************************************************)
(* E1: the exhaustive single-clause space (DESIGN section 3.3).            *)
(*                                                                         *)
(* Every state is one (query shape, quantifier, operator, right-hand side, *)
(* document) combination.  For each state TLC                              *)
(*   - evaluates the clause under the four polarities (prefix not x        *)
(*     operator not) with the specification's evaluator,                   *)
(*   - checks the negation laws of C03 and the verdict corner rules of C01 *)
(*     as invariants of the specification,                                 *)
(*   - prints one REPLAY line that the harness executes against the real   *)
(*     implementation (spec -> impl direction).                            *)
(* The universe tables are printed once (TABLE lines); REPLAY lines carry  *)
(* indices into them.                                                      *)
(***************************************************************************)
EXTENDS MC_Clause

ka == <<97>>   kb == <<98>>   kc == <<99>>   kz == <<122>>
sx == <<120>>  sy == <<121>>  sxy == <<120, 121>>

Leaves == <<I(0), I(1), I(2), I(5), S(<<>>), S(sx), S(sxy), S(sy), B(TRUE), B(FALSE), N,
            F(500), F(1500)>>

\* values of the document key `a`
AVals == Leaves \o
  <<L(<<>>), L(<<I(1)>>), L(<<I(1), I(2)>>), L(<<I(2), I(5)>>), L(<<S(sx)>>),
    L(<<S(sx), S(sy)>>), L(<<I(1), S(sx)>>), L(<<L(<<I(1)>>), L(<<I(2)>>)>>),
    L(<<M(<<kb>>, <<I(1)>>), M(<<kb>>, <<I(2)>>)>>),
    L(<<M(<<kb, kc>>, <<I(1), S(sx)>>), M(<<kc>>, <<S(sy)>>)>>),
    L(<<N>>),
    M(<<>>, <<>>), M(<<kb>>, <<I(1)>>), M(<<kb, kc>>, <<I(2), S(sx)>>),
    M(<<kb>>, <<L(<<I(1), I(2)>>)>>), M(<<kb>>, <<M(<<kc>>, <<I(1)>>)>>)>>

E1Docs == [i \in 1 .. Len(AVals) |-> M(<<ka>>, <<AVals[i]>>)] \o
        <<M(<<>>, <<>>), M(<<kb>>, <<I(1)>>), M(<<ka, kb>>, <<I(1), I(1)>>),
          M(<<ka, kb>>, <<L(<<I(1), I(2)>>), L(<<I(2), I(1)>>)>>)>>

FB(op, v) == Flt(<<<<Gac(<<K(kb)>>, TRUE, FALSE, op, FALSE, <<Val(v)>>)>>>>)
FBExists == Flt(<<<<Gac(<<K(kb)>>, TRUE, FALSE, "exists", FALSE, <<>>)>>>>)
FCx == Flt(<<<<Gac(<<K(kc)>>, TRUE, FALSE, "eq", FALSE, <<Val(S(sx))>>)>>>>)

\* keys filters on the map under `a`: ==, !=, in, not in against a string, a list of strings, a regex
KF(op, on, v) == [p |-> "keys", op |-> op, on |-> on, rhs |-> Val(v)]
E1Queries ==
  << <<K(ka), KF("eq", FALSE, S(kb))>>, <<K(ka), KF("eq", TRUE, S(kb))>>,
     <<K(ka), KF("in", FALSE, L(<<S(kb), S(kz)>>))>>, <<K(ka), KF("in", TRUE, L(<<S(kb), S(kz)>>))>>,
     <<K(ka), KF("in", FALSE, RE(TRUE, FALSE, kb))>>, <<K(ka), KF("in", TRUE, RE(TRUE, FALSE, kb))>>,
     <<K(ka), KF("eq", FALSE, RE(TRUE, FALSE, kb))>>, <<K(ka), KF("eq", TRUE, RE(TRUE, FALSE, kb))>>,
     <<K(ka)>>, <<K(ka), Idx>>, <<K(ka), All>>, <<K(ka), At(0)>>, <<K(ka), At(1)>>,
     <<K(ka), K(kb)>>, <<K(ka), Idx, K(kb)>>, <<K(ka), All, K(kb)>>, <<K(ka), K(kb), Idx>>,
     <<K(ka), FB("eq", I(1))>>, <<K(ka), FBExists, K(kc)>>,
     <<K(ka), Idx, FB("ge", I(2)), K(kb)>>, <<K(ka), K(kb), K(kc)>>, <<This, K(ka)>>,
     <<K(ka), FCx, K(kb)>>, <<K(kz)>> >>

UnaryOps == <<"exists", "empty", "is_string", "is_list", "is_struct", "is_bool", "is_int",
              "is_float", "is_null">>
BinaryOps == <<"eq", "in", "lt", "le", "gt", "ge">>

E1Rhs == [i \in 1 .. Len(Leaves) |-> Val(Leaves[i])] \o
  <<Val(L(<<I(1), I(2)>>)), Val(L(<<I(1)>>)), Val(L(<<S(sx), S(sy)>>)), Val(L(<<>>)),
    Val(L(<<L(<<I(1)>>), L(<<I(2)>>)>>)), Val(M(<<kb>>, <<I(1)>>)),
    Val(RI(1, 2, 3)), Val(RI(1, 2, 0)), Val(RI(1, 2, 1)), Val(RI(1, 5, 2)),
    Val(RF(500, 1500, 3)),
    Val(RE(FALSE, FALSE, sx)), Val(RE(TRUE, FALSE, sx)), Val(RE(FALSE, TRUE, sy)),
    Val(RE(TRUE, TRUE, sxy)),
    Qr(<<K(ka)>>), Qr(<<K(ka), Idx>>), Qr(<<K(kb)>>), Qr(<<K(kz)>>)>>

\* operator/right-hand-side combinations: unary ops have no rhs (index 0)
E1OpRhs == [i \in 1 .. Len(UnaryOps) |-> <<UnaryOps[i], 0>>] \o
         Concat([i \in 1 .. Len(BinaryOps) |-> [j \in 1 .. Len(E1Rhs) |-> <<BinaryOps[i], j>>]])

E1Allowed(d, o) == TRUE
E1Quantifiers == BOOLEAN

\* C03: the clause's query selects a single value that is comparable with the right-hand side
SingleComparable ==
  LET op == OpRhs[oi][1] IN
  /\ ~IsUnaryOp(op)
  /\ ~Lhs.err /\ ~RhsRes.err
  /\ Len(Lhs.r) > 0 /\ Len(RhsRes.r) > 0
  /\ LET its == BinaryItems(op, FALSE, Lhs.r, RhsRes.r) IN
     Len(its) = 1 /\ its[1].k \in {"ok", "no"} /\ its[1].c \in {"value", "valuein"}

CaseOK ==
  phase = "case" =>
  LET op == OpRhs[oi][1]
      oFF == Outcome(FALSE, FALSE)
      oTF == Outcome(TRUE, FALSE)
      oFT == IF HasOpNot(op) THEN Outcome(FALSE, TRUE) ELSE oFF
      oTT == IF HasOpNot(op) THEN Outcome(TRUE, TRUE) ELSE oTF
  IN
  /\ EmitReplay(IF HasOpNot(op) THEN <<oFF, oFT, oTF, oTT>> ELSE <<oFF, oTF>>)
  \* C03: prefix not == operator not; negating twice restores the original
  /\ HasOpNot(op) => (oTF = oFT /\ oTT = oFF)
  \* C03: SKIP stays SKIP, errors stay errors under negation
  /\ (oFF.st \in {"SKIP", "ERR"}) => (oTF.st = oFF.st)
  \* C03: a single comparable value flips under negation
  /\ SingleComparable => (oTF.st = FlipSt(oFF.st) /\ oFF.st \in {"PASS", "FAIL"})
  \* C03: not X > v holds exactly when X <= v does (single comparable value)
  /\ (SingleComparable /\ op \in {"gt", "ge", "lt", "le"}) =>
        LET j == CHOOSE j \in 1 .. Len(OpRhs) : OpRhs[j] = <<Dual(op), OpRhs[oi][2]>>
            dual == Denote(Prog(Gac(Queries[qi], al, FALSE, Dual(op), FALSE, <<Rhs[OpRhs[oi][2]]>>)),
                           Docs[di], {})
        IN dual.kind = "ok" /\ dual.rules[1][2] = oTF.st
  \* C01: an empty (filtered) selection makes the clause SKIP, except for the result-set
  \* emptiness test
  /\ (~Lhs.err /\ Len(Lhs.r) = 0 /\ ~(op = "empty" /\ LastPartIsFilter(Queries[qi])))
        => oFF.st \in {"SKIP", "ERR"}
  \* C01: unresolved paths count as FAIL for comparisons (quantifier all) ...
  /\ (~IsUnaryOp(op) /\ al /\ ~Lhs.err /\ (\E i \in 1 .. Len(Lhs.r) : IsUnres(Lhs.r[i]))
      /\ ~RhsRes.err /\ Len(RhsRes.r) > 0) => oFF.st = "FAIL"
  \* ... and as `empty` / `not exists`
  /\ (op \in {"exists", "empty"} /\ ~Lhs.err /\ Len(Lhs.r) > 0
      /\ (\A i \in 1 .. Len(Lhs.r) : IsUnres(Lhs.r[i])) /\ ~LastPartIsFilter(Queries[qi]))
        => oFF.st = (IF op = "exists" THEN "FAIL" ELSE "PASS")
  \* C01: an evaluation error is raised exactly when the semantics is undefined: `empty` on a
  \* value that is not a string, list or map (nor unresolved, nor a boolean)
  /\ (oFF.st = "ERR") <=>
       (op = "empty" /\ ~Lhs.err /\ ~LastPartIsFilter(Queries[qi])
        /\ \E i \in 1 .. Len(Lhs.r) :
             ~IsUnres(Lhs.r[i]) /\ Lhs.r[i].v.t \notin {"str", "list", "map", "bool"})

---------------------------------------------------------------------------
\* C10: every result of a query points into the document: a resolved value sits at its path; an
\* unresolved result names a point that exists while the next queried segment does not
NextMissing(part, v) ==
  CASE part.p = "key" -> ~IsMap(v) \/ KeyIndex(v, part.k) = 0
    [] part.p = "at" -> ~IsList(v) \/ part.i >= Len(v.v)
    [] part.p \in {"idx", "all"} -> (IsList(v) \/ IsMap(v)) /\ Len(v.v) = 0
    [] part.p = "filter" -> ~IsList(v) /\ ~IsMap(v)
    [] OTHER -> TRUE
PathOK ==
  (phase = "case" /\ ~Lhs.err) =>
  \A i \in 1 .. Len(Lhs.r) :
    LET r == Lhs.r[i]
        at == Resolve(Root, r.v.p, 1) IN
    /\ r.v.o = "d"
    /\ at.t # "none" /\ NoPaths(at) = NoPaths(r.v)
    /\ IsUnres(r) => (r.rem >= 1 /\ r.rem <= Len(Queries[qi]) /\ NextMissing(Queries[qi][r.rem], r.v))

---------------------------------------------------------------------------
\* C15: variables are transparent - the clause with its literal right-hand side, a prefix of
\* its query or its query right-hand side bound to a let variable (file scope and rule scope)
\* gets the status of the clause itself
Var(n) == [p |-> "var", n |-> n]
ProgLets(c, flets, rlets) ==
  [lets |-> flets, prules |-> <<>>, rules |-> <<[n |-> "r", w |-> <<>>, lets |-> rlets, b |-> <<<<c>>>>]>>]
StatusOf(prog) == LET d == Denote(prog, Docs[di], {}) IN IF d.kind = "err" THEN "ERR" ELSE d.rules[1][2]

AbsOK ==
  phase = "case" =>
  LET op == OpRhs[oi][1]
      ri == OpRhs[oi][2]
      q == Queries[qi]
      base == StatusOf(Prog(Clause(FALSE, FALSE)))
      rhs == IF ri = 0 THEN <<>> ELSE <<Rhs[ri]>>
      viaVar == <<Qr(<<Var("zv")>>)>>
  IN
  \* right-hand side (literal or query) through a variable
  /\ (ri # 0) =>
        LET c == Gac(q, al, FALSE, op, FALSE, viaVar)
            l == <<[n |-> "zv", v |-> Rhs[ri]]>> IN
        /\ StatusOf(ProgLets(c, l, <<>>)) = base
        /\ StatusOf(ProgLets(c, <<>>, l)) = base
        \* inner definitions shadow outer ones
        /\ StatusOf(ProgLets(c, <<[n |-> "zv", v |-> Val(S(<<111>>))]>>, l)) = base
  \* a prefix of the left-hand query through a variable (the documented exception: the
  \* emptiness test on a bare variable tests the result set)
  /\ \A cut \in 1 .. Len(q) :
        (/\ op # "empty"
         /\ q[1].p # "this"
         /\ (cut < Len(q) => q[cut + 1].p \notin {"idx", "filter"})) =>
        LET c == Gac(<<Var("zv")>> \o SubSeq(q, cut + 1, Len(q)), al, FALSE, op, FALSE, rhs)
            l == <<[n |-> "zv", v |-> Qr(SubSeq(q, 1, cut))]>> IN
        /\ StatusOf(ProgLets(c, l, <<>>)) = base
        /\ StatusOf(ProgLets(c, <<>>, l)) = base
  \* an unused variable never influences a verdict, even one that could not be evaluated
  /\ StatusOf(ProgLets(Clause(FALSE, FALSE), <<[n |-> "zu", v |-> Qr(<<Var("nope")>>)]>>, <<>>)) = base
=============================================================================
