SPECIFICATION Spec
INVARIANT Stable
INVARIANT ConsoleLines
INVARIANT Watch
CHECK_DEADLOCK FALSE
