SPECIFICATION Spec
INVARIANT Stable
INVARIANT ConsoleLines
INVARIANT Watch
INVARIANT OldExposed
CHECK_DEADLOCK FALSE
