----------------------------- MODULE GuardEval -----------------------------
(***************************************************************************)
(* Query engine and evaluator of cloudformation-guard rule files.          *)
(*                                                                         *)
(* One operator per function of the implementation:                        *)
(*   Query        <-> eval_context.rs query_retrieval_with_converter       *)
(*   ResolveVar   <-> RootScope/BlockScope/ValueScope::resolve_variable    *)
(*   EvalGac      <-> eval.rs eval_guard_access_clause (+ unary_operation, *)
(*                    binary_operation)                                    *)
(*   EvalNamed    <-> eval_guard_named_clause, RootScope::rule_status      *)
(*   EvalBlock    <-> eval_guard_block_clause                              *)
(*   EvalWhen     <-> eval_when_condition_block                            *)
(*   EvalType     <-> eval_type_block_clause                               *)
(*   EvalPCall    <-> eval_parameterized_rule_call                         *)
(*   EvalCnf      <-> eval_conjunction_clauses                             *)
(*   EvalRule     <-> eval_rule          Denote <-> eval_rules_file        *)
(*                                                                         *)
(* The scope chain of the implementation (RootScope <- BlockScope <-       *)
(* ValueScope, ResolvedParameterContext) is the sequence `env`, innermost  *)
(* scope last:                                                             *)
(*   [k |-> "root",  root, lets]   [k |-> "block", root, lets]             *)
(*   [k |-> "value", root]         [k |-> "params", binds]                 *)
(*                                                                         *)
(* X is the evaluation context [F |-> rules file, dev |-> deviations,      *)
(* tab |-> reference table for the table-driven functions].                *)
(* `dev` names the places where the pinned implementation knowingly        *)
(* departs from its documentation; with dev = {} the operators follow the  *)
(* documentation, with a deviation enabled they follow the code:           *)
(*   "prefix_not_ignored_on_binary"   eval.rs:1150 drops gac.negation      *)
(*   "filter_after_index_outer_scope" eval_context.rs:724 evaluates a      *)
(*        filter that follows [*] / * on a list against the enclosing scope*)
(*   "prefix_not_ignored_on_call"     eval.rs:1617 drops the negation of a *)
(*        parameterised rule call                                          *)
(*                                                                         *)
(* Results: [err |-> FALSE, ...] or [err |-> TRUE, e |-> kind].            *)
(* Record nodes: [k, st, n, vk, ch].                                       *)
(***************************************************************************)
EXTENDS GuardFunctions

Ok(r)   == [err |-> FALSE, r |-> r]
Err(e)  == [err |-> TRUE, e |-> e]

\* Record nodes carry, besides kind / status / name / children, what the report builder and
\* the path properties need from a value check: custom message, the `from` result (kind,
\* path, value) and the `to` results.  Strip() forgets those.
Node(k, st, n, ch) ==
  [k |-> k, st |-> st, n |-> n, vk |-> "", msg |-> "", fq |-> "", fp |-> <<>>, fv |-> <<>>,
   tq |-> <<>>, tp |-> <<>>, tv |-> <<>>, fo |-> "", tos |-> <<>>, ch |-> ch]
\* the implementation reports literals and data values alike as "res"
QKind(r) == IF r.q = "unres" THEN "unres" ELSE IF r.q = "lit" THEN "lit" ELSE "res"
ToKind(r) == IF r.q = "unres" THEN "unres" ELSE "res"
VNode(c, msg) ==
  IF c.st = "PASS" \/ c.vk \in {"NoValueForEmptyCheck", "DependentRule"}
  THEN [Node("Value", c.st, "", <<>>) EXCEPT !.vk = c.vk,
                                             !.msg = IF c.st = "PASS" THEN "" ELSE msg]
  ELSE [Node("Value", c.st, "", <<>>) EXCEPT
          !.vk = c.vk, !.msg = msg,
          !.fq = QKind(c.from), !.fp = c.from.v.p, !.fv = <<NoPaths(c.from.v)>>,
          !.tq = [i \in 1 .. Len(c.to) |-> ToKind(c.to[i])],
          !.tp = [i \in 1 .. Len(c.to) |-> c.to[i].v.p],
          !.tv = [i \in 1 .. Len(c.to) |-> NoPaths(c.to[i].v)],
          \* origin of the values (spec only, see Pub): "d" data, "l" rules file
          !.fo = c.from.v.o, !.tos = [i \in 1 .. Len(c.to) |-> c.to[i].v.o]]
VNodes(cs, msg)    == [i \in 1 .. Len(cs) |-> VNode(cs[i], msg)]
MsgOf(c)           == IF "msg" \in DOMAIN c THEN c.msg ELSE ""

\* the node as the implementation can show it (without the origin bookkeeping)
RECURSIVE Pub(_)
Pub(n) == [k |-> n.k, st |-> n.st, n |-> n.n, vk |-> n.vk, msg |-> n.msg, fq |-> n.fq, fp |-> n.fp,
           fv |-> n.fv, tq |-> n.tq, tp |-> n.tp, tv |-> n.tv,
           ch |-> [i \in 1 .. Len(n.ch) |-> Pub(n.ch[i])]]

\* C10: every value check that is about a value of the data document names a path that
\* resolves in the document to exactly that value
RECURSIVE PathsSound(_, _)
PathsSound(root, n) ==
  /\ \A i \in 1 .. Len(n.ch) : PathsSound(root, n.ch[i])
  /\ (n.k = "Value" /\ n.fo = "d") =>
        LET at == Resolve(root, n.fp, 1) IN at.t # "none" /\ NoPaths(at) = n.fv[1]
  /\ (n.k = "Value") =>
        \A j \in 1 .. Len(n.tos) :
           n.tos[j] = "d" =>
             LET at == Resolve(root, n.tp[j], 1) IN at.t # "none" /\ NoPaths(at) = n.tv[j]

RECURSIVE Strip(_)
Strip(n) == [k |-> n.k, st |-> n.st, n |-> n.n, vk |-> n.vk,
             ch |-> [i \in 1 .. Len(n.ch) |-> Strip(n.ch[i])]]

Front(s) == SubSeq(s, 1, Len(s) - 1)
Last(s)  == s[Len(s)]

VScope(v) == [k |-> "value", root |-> v]

\* EvalContext::root()
RECURSIVE EnvRoot(_)
EnvRoot(env) == IF Last(env).k = "params" THEN EnvRoot(Front(env)) ELSE Last(env).root

\* EvalContext::query(): the value the query starts from and the resolver handed to the
\* traversal.  IMPL: BlockScope/RootScope pass themselves, ValueScope passes its *parent*
\* (eval_context.rs:1483), ResolvedParameterContext delegates.
RECURSIVE QueryStart(_)
QueryStart(env) ==
  LET s == Last(env) IN
  CASE s.k = "value"  -> [cur |-> s.root, env |-> Front(env)]
    [] s.k = "params" -> QueryStart(Front(env))
    [] OTHER          -> [cur |-> s.root, env |-> env]

FindLet(lets, name) ==
  LET idx == {i \in 1 .. Len(lets) : lets[i].n = name} IN
  IF idx = {} THEN 0 ELSE CHOOSE i \in idx : \A j \in idx : j <= i     \* later definition wins

FindBind(binds, name) ==
  LET idx == {i \in 1 .. Len(binds) : binds[i].n = name} IN
  IF idx = {} THEN 0 ELSE CHOOSE i \in idx : TRUE

RulesNamed(F, name) == SelectSeq(F.rules, LAMBDA r : r.n = name)
FindPRule(F, name) ==
  LET idx == {i \in 1 .. Len(F.prules) : F.prules[i].n = name} IN
  IF idx = {} THEN 0 ELSE CHOOSE i \in idx : \A j \in idx : j <= i

LastPartIsFilter(q) == q[Len(q)].p \in {"filter", "keys"}

---------------------------------------------------------------------------
RECURSIVE Query(_, _, _, _, _), QueryElems(_, _, _, _, _, _, _),
          QueryMapValues(_, _, _, _, _, _), QueryVarHead(_, _, _, _, _),
          FilterList(_, _, _, _, _, _, _), FilterMapValues(_, _, _, _, _, _, _),
          QueryKeys(_, _, _, _, _), QuerySelected(_, _, _, _, _, _),
          QueryVKeys(_, _, _, _, _, _, _), QueryVKeyList(_, _, _, _, _, _, _),
          ResolveVar(_, _, _), ResolveRhs(_, _, _), ResolveArgs(_, _, _, _, _),
          EvalCnf(_, _, _), EvalLines(_, _, _, _, _, _, _), EvalAlts(_, _, _, _, _, _),
          EvalClause(_, _, _), EvalGac(_, _, _), EvalNamed(_, _, _), EvalBlock(_, _, _),
          BlockValues(_, _, _, _, _, _, _), EvalWhen(_, _, _), EvalType(_, _, _),
          TypeValues(_, _, _, _, _, _, _), EvalPCall(_, _, _), EvalRule(_, _, _),
          RuleStatusOf(_, _, _, _)

(* ----------------------------- queries --------------------------------- *)

\* the elements of a list: each continues at part i under the same resolver
\* (accumulate, eval_context.rs:142-177)
QueryElems(X, q, i, elems, j, env, acc) ==
  IF j > Len(elems) THEN Ok(acc)
  ELSE LET r == Query(X, q, i, elems[j], env) IN
       IF r.err THEN r ELSE QueryElems(X, q, i, elems, j + 1, env, acc \o r.r)

\* the values of a map: each continues at part i under a ValueScope rooted at it
\* (accumulate_map, eval_context.rs:179-232)
QueryMapValues(X, q, i, vals, j, env) ==
  IF j > Len(vals) THEN Ok(<<>>)
  ELSE LET r == Query(X, q, i, vals[j], Append(env, VScope(vals[j]))) IN
       IF r.err THEN r
       ELSE LET rest == QueryMapValues(X, q, i, vals, j + 1, env) IN
            IF rest.err THEN rest ELSE Ok(r.r \o rest.r)

\* filter over the elements of a list (eval_context.rs:755-791): the conjunction is evaluated
\* with the element as root; selected elements continue under the *enclosing* resolver
FilterList(X, q, i, cnf, elems, j, env) ==
  IF j > Len(elems) THEN Ok(<<>>)
  ELSE LET f == EvalCnf(X, cnf, Append(env, VScope(elems[j]))) IN
       IF f.err THEN f
       ELSE LET here == IF f.st = "PASS" THEN Query(X, q, i + 1, elems[j], env) ELSE Ok(<<>>) IN
            IF here.err THEN here
            ELSE LET rest == FilterList(X, q, i, cnf, elems, j + 1, env) IN
                 IF rest.err THEN rest ELSE Ok(here.r \o rest.r)

\* filter over the values of a map reached through a key (check_and_delegate under
\* accumulate_map): evaluated and continued under a ValueScope of the value
FilterMapValues(X, q, i, cnf, vals, j, env) ==
  IF j > Len(vals) THEN Ok(<<>>)
  ELSE LET e2 == Append(env, VScope(vals[j]))
           f == EvalCnf(X, cnf, e2) IN
       IF f.err THEN f
       ELSE LET here == IF f.st = "PASS" THEN Query(X, q, i + 1, vals[j], e2) ELSE Ok(<<>>) IN
            IF here.err THEN here
            ELSE LET rest == FilterMapValues(X, q, i, cnf, vals, j + 1, env) IN
                 IF rest.err THEN rest ELSE Ok(here.r \o rest.r)

QuerySelected(X, q, i, vals, j, env) ==
  IF j > Len(vals) THEN Ok(<<>>)
  ELSE LET r == Query(X, q, i, vals[j], env) IN
       IF r.err THEN r
       ELSE LET rest == QuerySelected(X, q, i, vals, j + 1, env) IN
            IF rest.err THEN rest ELSE Ok(r.r \o rest.r)

\* [ keys op rhs ] (eval_context.rs:830-922)
QueryKeys(X, q, i, cur, env) ==
  LET part == q[i] IN
  IF ~IsMap(cur) THEN Ok(<<UnRes(cur, i)>>)
  ELSE
    LET rhs == IF part.rhs.r = "q" THEN Query(X, part.rhs.q, 1, cur, env)
               ELSE ResolveRhs(X, part.rhs, env) IN
    IF rhs.err THEN rhs
    ELSE
      LET keyv(j) == [t |-> "str", v |-> cur.k[j], p |-> cur.p, o |-> cur.o]
          sel == {j \in 1 .. Len(cur.k) : KeySelected(part.op, part.on, keyv(j), rhs.r)}
          ord == SelectSeq([j \in 1 .. Len(cur.k) |-> j], LAMBDA j : j \in sel)
          vals == [n \in 1 .. Len(ord) |-> cur.v[ord[n]]]
      IN QuerySelected(X, q, i + 1, vals, 1, env)

\* a query that starts with %var (eval_context.rs:348-385)
QueryVarHead(X, q, vals, j, env) ==
  IF j > Len(vals) THEN Ok(<<>>)
  ELSE
    LET each == vals[j]
        nxt == IF Len(q) >= 2 /\ q[2].p = "idx" THEN 3 ELSE 2
        here == IF IsUnres(each) THEN Ok(<<each>>)
                ELSE IF nxt <= Len(q)
                     THEN Query(X, q, nxt, each.v, Append(env, VScope(each.v)))
                     ELSE Ok(<<each>>)
    IN IF here.err THEN here
       ELSE LET rest == QueryVarHead(X, q, vals, j + 1, env) IN
            IF rest.err THEN rest ELSE Ok(here.r \o rest.r)

Query(X, q, i, cur, env) ==
  IF i > Len(q) THEN Ok(<<Res(cur)>>)
  ELSE
    LET part == q[i] IN
    CASE part.p = "var" /\ i = 1 ->
           LET vs == ResolveVar(X, env, part.n) IN
           IF vs.err THEN vs ELSE QueryVarHead(X, q, vs.r, 1, env)
      [] part.p = "this" -> Query(X, q, i + 1, cur, env)
      [] part.p = "key" ->
           \* DOC(QUERY_AND_FILTERING.md): a missing key or a non-map leaves the query unresolved
           IF IsMap(cur)
           THEN LET j == KeyIndex(cur, part.k) IN
                IF j = 0 THEN Ok(<<UnRes(cur, i)>>) ELSE Query(X, q, i + 1, cur.v[j], env)
           ELSE Ok(<<UnRes(cur, i)>>)
      [] part.p = "at" ->
           LET n == IF part.i >= 0 THEN part.i ELSE 0 - part.i IN
           IF IsList(cur) /\ n < Len(cur.v)
           THEN Query(X, q, i + 1, cur.v[n + 1], env)
           ELSE Ok(<<UnRes(cur, i)>>)
      [] part.p = "idx" ->
           \* DOC(CONTEXTAWARE...#to-be-or-not-to-be-an-array): [*] on a non-list is the value itself
           IF IsList(cur)
           THEN IF Len(cur.v) = 0 THEN Ok(<<UnRes(cur, i)>>)
                ELSE QueryElems(X, q, i + 1, cur.v, 1, env, <<>>)
           ELSE Query(X, q, i + 1, cur, env)
      [] part.p = "all" ->
           IF IsList(cur)
           THEN IF Len(cur.v) = 0 THEN Ok(<<UnRes(cur, i)>>)
                ELSE QueryElems(X, q, i + 1, cur.v, 1, env, <<>>)
           ELSE IF IsMap(cur)
           THEN IF Len(cur.v) = 0 THEN Ok(<<UnRes(cur, i)>>)
                ELSE QueryMapValues(X, q, i + 1, cur.v, 1, env)
           ELSE Query(X, q, i + 1, cur, env)
      [] part.p = "filter" ->
           IF IsList(cur) THEN FilterList(X, q, i, part.c, cur.v, 1, env)
           ELSE IF IsMap(cur) THEN
             IF i = 1 THEN Err("panic:filter-first")
             \* (the parser inserts [*] after a leading variable: `%v[ f ]` is `%v[*][ f ]`)
             ELSE IF q[i - 1].p \in {"all", "idx", "var"} THEN
               \* the map is one selected value: keep it iff the filter passes on it
               LET fenv == IF "filter_after_index_outer_scope" \in X.dev
                           THEN env ELSE Append(env, VScope(cur))
                   f == EvalCnf(X, part.c, fenv) IN
               IF f.err THEN f
               ELSE IF f.st = "PASS" THEN Query(X, q, i + 1, cur, fenv) ELSE Ok(<<>>)
             ELSE IF q[i - 1].p = "key" THEN
               FilterMapValues(X, q, i, part.c, cur.v, 1, env)
             ELSE Err("filter-on-map")             \* eval_context.rs:752 IncompatibleError (unreachable!() before fix 9c67bd0)
           ELSE IF i > 1 /\ q[i - 1].p \in {"idx", "var"} THEN
             LET f == EvalCnf(X, part.c, Append(env, VScope(cur))) IN
             IF f.err THEN f
             ELSE IF f.st = "PASS" THEN Query(X, q, i + 1, cur, env) ELSE Ok(<<>>)
           ELSE Ok(<<UnRes(cur, i)>>)
      [] part.p = "keys" -> QueryKeys(X, q, i, cur, env)
      [] part.p = "vkey" ->
           \* DOC(QUERY_PROJECTION_AND_INTERPOLATION.md): `map.%v`: the values of the variable are
           \* the keys to look up (eval_context.rs:421-525)
           IF ~IsMap(cur) THEN Ok(<<UnRes(cur, i)>>)
           ELSE LET ks == ResolveVar(X, env, part.n) IN
                IF ks.err THEN ks
                ELSE IF i = Len(q) \/ q[i + 1].p \in {"idx", "key", "vkey"}
                THEN QueryVKeys(X, q, i, cur, ks.r, 1, env)
                ELSE IF q[i + 1].p = "at"
                THEN LET n == IF q[i + 1].i >= 0 THEN q[i + 1].i ELSE 0 - q[i + 1].i IN
                     \* the index picks one of the keys (and is then applied to the value reached)
                     IF n < Len(ks.r) THEN QueryVKeys(X, q, i, cur, <<ks.r[n + 1]>>, 1, env)
                     ELSE Ok(<<UnRes(cur, i)>>)
                ELSE Err("variable-key-followed-by-unsupported-part")
      [] OTHER -> Err("unsupported-query-part")

\* one key result after the other; an unresolved key leaves the query unresolved at the map
QueryVKeys(X, q, i, cur, keys, j, env) ==
  IF j > Len(keys) THEN Ok(<<>>)
  ELSE
    LET k == keys[j]
        here == IF IsUnres(k) THEN Ok(<<UnRes(cur, i)>>)
                ELSE IF k.v.t = "str"
                THEN LET x == KeyIndex(cur, k.v.v) IN
                     IF x = 0 THEN Ok(<<UnRes(cur, i)>>) ELSE Query(X, q, i + 1, cur.v[x], env)
                ELSE IF k.v.t = "list" THEN QueryVKeyList(X, q, i, cur, k.v.v, 1, env)
                ELSE Err("variable-key-not-a-string") IN
    IF here.err THEN here
    ELSE LET rest == QueryVKeys(X, q, i, cur, keys, j + 1, env) IN
         IF rest.err THEN rest ELSE Ok(here.r \o rest.r)

\* a key value that is a list of strings: every element is a key
QueryVKeyList(X, q, i, cur, elems, j, env) ==
  IF j > Len(elems) THEN Ok(<<>>)
  ELSE
    LET here == IF elems[j].t # "str" THEN Err("variable-key-not-a-string")
                ELSE LET x == KeyIndex(cur, elems[j].v) IN
                     IF x = 0 THEN Ok(<<UnRes(cur, i)>>) ELSE Query(X, q, i + 1, cur.v[x], env) IN
    IF here.err THEN here
    ELSE LET rest == QueryVKeyList(X, q, i, cur, elems, j + 1, env) IN
         IF rest.err THEN rest ELSE Ok(here.r \o rest.r)

(* ---------------------------- variables -------------------------------- *)

\* resolve_variable along the scope chain (eval_context.rs:1117-1163, 1502, 1545-1587,
\* eval.rs:1532).  DOC(QUERY_PROJECTION...): a variable is evaluated against the scope in
\* which it is defined; inner definitions shadow outer ones.
ResolveVar(X, env, name) ==
  IF Len(env) = 0 THEN Err("unknown-variable")
  ELSE
    LET s == Last(env) IN
    CASE s.k = "value" -> ResolveVar(X, Front(env), name)
      [] s.k = "params" ->
           LET b == FindBind(s.binds, name) IN
           IF b = 0 THEN ResolveVar(X, Front(env), name) ELSE Ok(s.binds[b].r)
      [] OTHER ->
           LET l == FindLet(s.lets, name) IN
           IF l = 0 THEN (IF s.k = "root" THEN Err("unknown-variable")
                          ELSE ResolveVar(X, Front(env), name))
           ELSE
             LET def == s.lets[l].v IN
             CASE def.r = "val" -> Ok(<<Lit(WithPaths(def.v, <<>>))>>)
               [] def.r = "q" ->
                    LET r == Query(X, def.q, 1, s.root, env) IN
                    IF r.err THEN r
                    ELSE IF def.all THEN r ELSE Ok(SelectSeq(r.r, IsRes))
               [] OTHER -> ResolveRhs(X, def, env)

\* the right-hand side of a comparison / an argument: literal, query or function call
ResolveRhs(X, rhs, env) ==
  CASE rhs.r = "val" -> Ok(<<Lit(WithPaths(rhs.v, <<>>))>>)
    [] rhs.r = "q" -> LET s == QueryStart(env) IN Query(X, rhs.q, 1, s.cur, s.env)
    [] OTHER ->
         \* function call: arguments resolved in the current scope (resolve_function,
         \* eval_context.rs:2437-2472); results are resolved values
         LET args == ResolveArgs(X, rhs.a, 1, env, <<>>) IN
         IF args.err THEN args
         ELSE LET c == Call(rhs.f, args.r, X.tab) IN
              IF c.err THEN Err(c.e) ELSE Ok([i \in 1 .. Len(c.vs) |-> Res(c.vs[i])])

ResolveArgs(X, args, j, env, acc) ==
  IF j > Len(args) THEN Ok(acc)
  ELSE LET r == ResolveRhs(X, args[j], env) IN
       IF r.err THEN r ELSE ResolveArgs(X, args, j + 1, env, Append(acc, r.r))

(* ----------------------------- clauses --------------------------------- *)

StatusAgg(fails, passes) == IF fails > 0 THEN "FAIL" ELSE IF passes > 0 THEN "PASS" ELSE "SKIP"

\* eval_conjunction_clauses (eval.rs:1971-2065).  DOC(CLAUSES.md "CNF"): a line of or-joined
\* clauses is PASS iff one alternative passed (later ones are not evaluated), FAIL iff none
\* passed and one failed, else SKIP; the conjunction is FAIL iff a line failed, PASS iff none
\* failed and one passed, else SKIP.
EvalAlts(X, alts, j, env, anyFail, acc) ==
  IF j > Len(alts)
  THEN [err |-> FALSE, st |-> IF anyFail THEN "FAIL" ELSE "SKIP", ns |-> acc]
  ELSE LET r == EvalClause(X, alts[j], env) IN
       IF r.err THEN r
       ELSE IF r.st = "PASS" THEN [err |-> FALSE, st |-> "PASS", ns |-> Append(acc, r.n)]
       ELSE EvalAlts(X, alts, j + 1, env, anyFail \/ r.st = "FAIL", Append(acc, r.n))

EvalLines(X, cnf, j, env, fails, passes, acc) ==
  IF j > Len(cnf)
  THEN [err |-> FALSE, st |-> StatusAgg(fails, passes), ns |-> acc]
  ELSE LET a == EvalAlts(X, cnf[j], 1, env, FALSE, <<>>) IN
       IF a.err THEN a
       ELSE LET nodes == IF Len(cnf[j]) > 1 THEN <<Node("Disj", a.st, "", a.ns)>> ELSE a.ns IN
            EvalLines(X, cnf, j + 1, env,
                      fails + (IF a.st = "FAIL" THEN 1 ELSE 0),
                      passes + (IF a.st = "PASS" THEN 1 ELSE 0),
                      acc \o nodes)

EvalCnf(X, cnf, env) == EvalLines(X, cnf, 1, env, 0, 0, <<>>)

\* a block body: its own BlockScope for the block's lets, rooted at the current root
\* (eval_general_block_clause, eval.rs:1291-1301)
EvalBody(X, lets, cnf, env) ==
  EvalCnf(X, cnf, Append(env, [k |-> "block", root |-> EnvRoot(env), lets |-> lets]))

EvalClause(X, c, env) ==
  CASE c.c = "gac"   -> EvalGac(X, c, env)
    [] c.c = "named" -> EvalNamed(X, c, env)
    [] c.c = "block" -> EvalBlock(X, c, env)
    [] c.c = "when"  -> EvalWhen(X, c, env)
    [] c.c = "type"  -> EvalType(X, c, env)
    [] c.c = "pcall" -> EvalPCall(X, c, env)

\* one clause `[not] [some] query op [rhs]`
EvalGac(X, c, env) ==
  LET s == QueryStart(env)
      unary == IsUnaryOp(c.op)
      \* DOC(CLAUSES.md): `not` inverts the clause.  The pinned implementation drops it on
      \* binary clauses (deviation).
      neg == IF ~unary /\ "prefix_not_ignored_on_binary" \in X.dev THEN FALSE ELSE c.neg
  IN
  IF unary THEN
    LET lhs == Query(X, c.q, 1, s.cur, s.env) IN
    IF lhs.err THEN lhs
    ELSE
      LET rs == lhs.r
          emptyOnExpr == LastPartIsFilter(c.q) \/ (Len(c.q) = 1 /\ c.q[1].p = "var")
      IN
      IF emptyOnExpr /\ c.op = "empty" THEN
        \* DOC(QUERY_PROJECTION...): the emptiness test on a bare variable / a filtered
        \* selection tests the result set
        IF Len(rs) > 0 THEN
          LET cs == [i \in 1 .. Len(rs) |->
                       LET b == IF IsUnres(rs[i]) THEN ~c.on
                                ELSE (IF c.on THEN ~IsNull(rs[i].v) ELSE IsNull(rs[i].v))
                           ok == b # neg
                           from == IF IsUnres(rs[i]) THEN rs[i] ELSE Res(rs[i].v)
                       IN IF ok THEN VPass(from) ELSE VFail("Unary", from, <<>>)]
              st == FoldChecks(c.all, cs)
          IN [err |-> FALSE, st |-> st, n |-> Node("Clause", st, "", VNodes(cs, MsgOf(c)))]
        ELSE
          LET ok == (~c.on) # neg
              st == IF ok THEN "PASS" ELSE "FAIL"
              ch == IF ok THEN <<VNode(VPass(Lit([t |-> "null"])), "")>>
                    ELSE <<VNode(VFail("NoValueForEmptyCheck", Lit([t |-> "null"]), <<>>), MsgOf(c))>>
          IN [err |-> FALSE, st |-> st, n |-> Node("Clause", st, "", ch)]
      ELSE IF Len(rs) = 0 THEN
        \* DOC(QUERY_AND_FILTERING.md): an empty filtered selection makes the clause SKIP
        [err |-> FALSE, st |-> "SKIP", n |-> Node("Clause", "SKIP", "", <<>>)]
      ELSE
        LET ts == [i \in 1 .. Len(rs) |-> UnaryTest(c.op, rs[i])] IN
        IF \E i \in 1 .. Len(ts) : ts[i] = "err" THEN Err("unary-op-on-unsupported-type")
        ELSE
          LET cs == [i \in 1 .. Len(rs) |->
                       IF Polar(ts[i] = "t", c.on, neg) THEN VPass(rs[i])
                       ELSE VFail("Unary", rs[i], <<>>)]
              st == FoldChecks(c.all, cs)
          IN [err |-> FALSE, st |-> st, n |-> Node("Clause", st, "", VNodes(cs, MsgOf(c)))]
  ELSE
    LET rhs == ResolveRhs(X, c.rhs[1], env) IN
    IF rhs.err THEN rhs
    ELSE
      LET lhs == Query(X, c.q, 1, s.cur, s.env) IN
      IF lhs.err THEN lhs
      ELSE
        LET b == BinaryChecks(c.op, c.on # neg, lhs.r, rhs.r) IN
        IF b.skip THEN [err |-> FALSE, st |-> "SKIP", n |-> Node("Clause", "SKIP", "", <<>>)]
        ELSE LET st == FoldChecks(c.all, b.cs) IN
             [err |-> FALSE, st |-> st, n |-> Node("Clause", st, "", VNodes(b.cs, MsgOf(c)))]

\* RootScope::rule_status without the cache (eval_context.rs:1087-1115): the rules of that
\* name in file order until one is not SKIP.  Always evaluated in the root scope.
RuleStatusOf(X, rules, j, rootEnv) ==
  IF j > Len(rules) THEN [err |-> FALSE, st |-> "SKIP"]
  ELSE LET r == EvalRule(X, rules[j], rootEnv) IN
       IF r.err THEN r
       ELSE IF r.st # "SKIP" THEN [err |-> FALSE, st |-> r.st]
       ELSE RuleStatusOf(X, rules, j + 1, rootEnv)

\* DOC(CLAUSES.md "named rules"): a clause naming a rule is PASS iff that rule is PASS
EvalNamed(X, c, env) ==
  LET rules == RulesNamed(X.F, c.n) IN
  IF Len(rules) = 0 THEN Err("unknown-rule")
  ELSE LET r == RuleStatusOf(X, rules, 1, <<env[1]>>) IN
       IF r.err THEN r
       ELSE LET pass == (r.st = "PASS") # c.neg
                st == IF pass THEN "PASS" ELSE "FAIL"
                vk == IF pass THEN "Success" ELSE "DependentRule" IN
            [err |-> FALSE, st |-> st,
             n |-> [Node("Value", st, "", <<>>) EXCEPT !.vk = vk, !.msg = IF pass THEN "" ELSE MsgOf(c)]]

\* `query { ... }` (eval.rs:1303-1426)
BlockValues(X, c, vals, j, env, cnt, acc) ==
  IF j > Len(vals) THEN [err |-> FALSE, fails |-> cnt[1], passes |-> cnt[2], ns |-> acc]
  ELSE
    IF IsUnres(vals[j]) THEN
      BlockValues(X, c, vals, j + 1, env, <<cnt[1] + 1, cnt[2]>>,
                  Append(acc, VNode(VFail("MissingBlockValue", vals[j], <<>>), "")))
    ELSE
      LET r == EvalBody(X, c.lets, c.b, Append(env, VScope(vals[j].v))) IN
      IF r.err THEN r
      ELSE BlockValues(X, c, vals, j + 1, env,
                       <<cnt[1] + (IF r.st = "FAIL" THEN 1 ELSE 0),
                         cnt[2] + (IF r.st = "PASS" THEN 1 ELSE 0)>>,
                       acc \o r.ns)

EvalBlock(X, c, env) ==
  LET s == QueryStart(env)
      vs == Query(X, c.q, 1, s.cur, s.env) IN
  IF vs.err THEN vs
  ELSE IF Len(vs.r) = 0 THEN
    \* DOC: a block over no values is SKIP (FAIL for the `!empty` form)
    LET st == IF c.ne THEN "FAIL" ELSE "SKIP" IN
    [err |-> FALSE, st |-> st, n |-> Node("Block", st, "", <<>>)]
  ELSE
    LET b == BlockValues(X, c, vs.r, 1, env, <<0, 0>>, <<>>) IN
    IF b.err THEN b
    ELSE LET st == IF c.all THEN StatusAgg(b.fails, b.passes)
                   ELSE IF b.passes > 0 THEN "PASS"
                   ELSE IF b.fails > 0 THEN "FAIL" ELSE "SKIP" IN
         [err |-> FALSE, st |-> st, n |-> Node("Block", st, "", b.ns)]

\* `when conditions { ... }` (eval.rs:1428-1502).  DOC: conditions not PASS => SKIP, body
\* not evaluated.
EvalWhen(X, c, env) ==
  LET w == EvalCnf(X, c.w, env) IN
  IF w.err THEN w
  ELSE IF w.st # "PASS"
  THEN [err |-> FALSE, st |-> "SKIP",
        n |-> Node("When", "SKIP", "", <<Node("WhenCond", w.st, "", w.ns)>>)]
  ELSE LET b == EvalBody(X, c.lets, c.b, env) IN
       IF b.err THEN b
       ELSE [err |-> FALSE, st |-> b.st,
             n |-> Node("When", b.st, "", <<Node("WhenCond", "PASS", "", w.ns)>> \o b.ns)]

\* type blocks (eval.rs:1649-1822).  DOC(CLAUSES / README): `AWS::X::Y { .. }` is
\* `Resources.*[ Type == 'AWS::X::Y' ] { .. }`
TypeQuery(tn) ==
  <<[p |-> "key", k |-> <<82, 101, 115, 111, 117, 114, 99, 101, 115>>],
    [p |-> "all"],
    [p |-> "filter",
     c |-> <<<<[c |-> "gac", q |-> <<[p |-> "key", k |-> <<84, 121, 112, 101>>]>>,
                all |-> TRUE, neg |-> FALSE, op |-> "eq", on |-> FALSE,
                rhs |-> <<[r |-> "val", v |-> [t |-> "str", v |-> tn]]>>]>>>>]>>

TypeValues(X, c, vals, j, env, cnt, acc) ==
  IF j > Len(vals) THEN [err |-> FALSE, fails |-> cnt[1], passes |-> cnt[2], ns |-> acc]
  ELSE
    IF IsUnres(vals[j]) THEN Err("type-block-unresolved")
    ELSE
      LET r == EvalBody(X, c.lets, c.b, Append(env, VScope(vals[j].v))) IN
      IF r.err THEN r
      ELSE TypeValues(X, c, vals, j + 1, env,
                      <<cnt[1] + (IF r.st = "FAIL" THEN 1 ELSE 0),
                        cnt[2] + (IF r.st = "PASS" THEN 1 ELSE 0)>>,
                      Append(acc, Node("TypeBlock", r.st, "", r.ns)))

EvalType(X, c, env) ==
  LET w == IF Len(c.w) > 0 THEN EvalCnf(X, c.w, env) ELSE [err |-> FALSE, st |-> "PASS", ns |-> <<>>]
      condNodes == IF Len(c.w) > 0 THEN <<Node("TypeCond", w.st, "", w.ns)>> ELSE <<>> IN
  IF w.err THEN w
  ELSE IF w.st # "PASS"
  THEN [err |-> FALSE, st |-> "SKIP", n |-> Node("TypeCheck", "SKIP", c.tn, condNodes)]
  ELSE
    LET s == QueryStart(env)
        vs == Query(X, TypeQuery(c.tnc), 1, s.cur, s.env) IN
    IF vs.err THEN vs
    ELSE IF Len(vs.r) = 0
    THEN [err |-> FALSE, st |-> "SKIP", n |-> Node("TypeCheck", "SKIP", c.tn, condNodes)]
    ELSE LET b == TypeValues(X, c, vs.r, 1, env, <<0, 0>>, <<>>) IN
         IF b.err THEN b
         ELSE LET st == StatusAgg(b.fails, b.passes) IN
              [err |-> FALSE, st |-> st, n |-> Node("TypeCheck", st, c.tn, condNodes \o b.ns)]

\* parameterised rule call (eval.rs:1574-1618): arguments resolved eagerly in the caller
EvalPCall(X, c, env) ==
  LET pi == FindPRule(X.F, c.n) IN
  IF pi = 0 THEN Err("unknown-parameterized-rule")
  ELSE
    LET pr == X.F.prules[pi] IN
    IF Len(pr.ps) # Len(c.a) THEN Err("arity-mismatch")
    ELSE
      LET args == ResolveArgs(X, c.a, 1, env, <<>>) IN
      IF args.err THEN args
      ELSE
        LET binds == [i \in 1 .. Len(pr.ps) |->
                        \* DOC(C15): a literal argument is the literal written in place of the
                        \* parameter (the pinned tree bound it as a resolved value, so that
                        \* `x == %p` with p = ["a"] was not `x == ["a"]`; fixed in /repo)
                        [n |-> pr.ps[i], r |-> args.r[i]]]
            r == EvalRule(X, [n |-> pr.n, w |-> <<>>, lets |-> pr.lets, b |-> pr.b],
                          Append(env, [k |-> "params", binds |-> binds])) IN
        \* DOC(C03 / CLAUSES.md): `not` inverts.  The pinned implementation parses the prefix
        \* negation of a call but never applies it (eval.rs:1617) (deviation).
        IF r.err THEN r
        ELSE LET named == [r.n EXCEPT !.msg = MsgOf(c)] IN      \* eval.rs:1555-1571
             IF ~c.neg \/ "prefix_not_ignored_on_call" \in X.dev
             THEN [err |-> FALSE, st |-> r.st, n |-> named]
             ELSE LET st == IF r.st = "PASS" THEN "FAIL" ELSE "PASS" IN
                  [err |-> FALSE, st |-> st, n |-> named]

\* rule (eval.rs:1837-1906)
EvalRule(X, rule, env) ==
  LET w == IF Len(rule.w) > 0 THEN EvalCnf(X, rule.w, env)
           ELSE [err |-> FALSE, st |-> "PASS", ns |-> <<>>]
      condNodes == IF Len(rule.w) > 0 THEN <<Node("RuleCond", w.st, "", w.ns)>> ELSE <<>> IN
  IF w.err THEN w
  ELSE IF w.st # "PASS"
  THEN [err |-> FALSE, st |-> "SKIP", n |-> Node("Rule", "SKIP", rule.n, condNodes)]
  ELSE LET b == EvalBody(X, rule.lets, rule.b, env) IN
       IF b.err THEN b
       ELSE [err |-> FALSE, st |-> b.st, n |-> Node("Rule", b.st, rule.n, condNodes \o b.ns)]

---------------------------------------------------------------------------
(* the file: every rule in file order, the first evaluation error aborts   *)
(* (eval_rules_file, eval.rs:1915-1968)                                    *)

RECURSIVE FileRules(_, _, _, _, _)
FileRules(X, j, rootEnv, cnt, acc) ==
  IF j > Len(X.F.rules)
  THEN [err |-> FALSE, st |-> StatusAgg(cnt[1], cnt[2]), ns |-> acc]
  ELSE LET r == EvalRule(X, X.F.rules[j], rootEnv) IN
       IF r.err THEN r
       ELSE FileRules(X, j + 1, rootEnv,
                      <<cnt[1] + (IF r.st = "FAIL" THEN 1 ELSE 0),
                        cnt[2] + (IF r.st = "PASS" THEN 1 ELSE 0)>>,
                      Append(acc, r.n))

\* rule reference graph: does some named-rule reference chain return to its start?
RECURSIVE ClauseRefs(_), CnfRefs(_)
CnfRefs(cnf) == UNION {UNION {ClauseRefs(cnf[i][j]) : j \in 1 .. Len(cnf[i])} : i \in 1 .. Len(cnf)}
QueryRefs(q) == UNION {IF q[i].p = "filter" THEN CnfRefs(q[i].c) ELSE {} : i \in 1 .. Len(q)}
ClauseRefs(c) ==
  CASE c.c = "named" -> {c.n}
    [] c.c = "gac"   -> QueryRefs(c.q)
    [] c.c = "block" -> QueryRefs(c.q) \cup CnfRefs(c.b)
    [] c.c = "when"  -> CnfRefs(c.w) \cup CnfRefs(c.b)
    [] c.c = "type"  -> CnfRefs(c.w) \cup CnfRefs(c.b)
    [] OTHER -> {}
RuleRefs(F, name) ==
  UNION {CnfRefs(F.rules[i].w) \cup CnfRefs(F.rules[i].b) : i \in {j \in 1 .. Len(F.rules) : F.rules[j].n = name}}
RECURSIVE Reach(_, _, _)
Reach(F, frontier, seen) ==
  LET nxt == (UNION {RuleRefs(F, n) : n \in frontier}) \ seen IN
  IF nxt = {} THEN seen ELSE Reach(F, nxt, seen \cup nxt)
HasCycle(F) ==
  \E i \in 1 .. Len(F.rules) : F.rules[i].n \in Reach(F, RuleRefs(F, F.rules[i].n), RuleRefs(F, F.rules[i].n))

\* Denote(F, doc, dev): the meaning of rules file F on document doc.
\*   [kind |-> "ok", file |-> status, rules |-> <<<<name, status>>, ...>>, tree |-> node]
\*   [kind |-> "err", e |-> kind]
DenoteT(F, doc, dev, tab) ==
  IF HasCycle(F) THEN [kind |-> "err", e |-> "rule-reference-cycle"]
  ELSE
    LET X == [F |-> F, dev |-> dev, tab |-> tab]
        root == DocPaths(doc)
        rootEnv == <<[k |-> "root", root |-> root, lets |-> F.lets]>>
        r == FileRules(X, 1, rootEnv, <<0, 0>>, <<>>)
    IN IF r.err THEN [kind |-> "err", e |-> r.e]
       ELSE [kind |-> "ok", file |-> r.st,
             rules |-> [i \in 1 .. Len(r.ns) |-> <<r.ns[i].n, r.ns[i].st>>],
             tree |-> Node("File", r.st, "", r.ns)]

Denote(F, doc, dev) == DenoteT(F, doc, dev, <<>>)
=============================================================================
