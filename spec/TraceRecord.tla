----------------------------- MODULE TraceRecord -----------------------------
(***************************************************************************)
(* C02 - trace validation of evaluation records.                           *)
(* Every trace line carries the complete record tree the implementation    *)
(* emitted for one evaluation (obs.rtree).  Explain re-derives every       *)
(* composite status of that tree from its children and the rules file;     *)
(* the root status must be the status returned to the caller (obs.file)    *)
(* and the per-rule statuses must be those of the file's rule records.     *)
(* This does not go through the specification's evaluator.                 *)
(***************************************************************************)
EXTENDS GuardRecord, Json, IOUtils

Rec == ndJsonDeserialize(IOEnv.TRACE)
VARIABLE l

Judge(line) ==
  IF line.obs.kind # "ok" THEN PrintT(<<"EXPLAIN", line.i, "skip", line.obs.kind>>)
  ELSE
    LET why == Explain(line.prog, line.obs.rtree, line.obs.rules)
        root == IF line.obs.rtree.st # line.obs.file THEN "root status is not the returned status" ELSE ""
        w == IF why # "" THEN why ELSE root
    IN IF w = "" THEN PrintT(<<"EXPLAIN", line.i, "ok", "">>)
       ELSE PrintT(<<"EXPLAIN", line.i, "unexplained", w>>)

Init == l = 1
Next == l <= Len(Rec) /\ Judge(Rec[l]) /\ l' = l + 1
Spec == Init /\ [][Next]_l
TraceAccepted ==
  LET d == TLCGet("stats").diameter IN
  IF d - 1 = Len(Rec) THEN TRUE ELSE Print(<<"TRACE-REJECTED at line", d>>, FALSE)
=============================================================================
