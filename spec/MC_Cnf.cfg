SPECIFICATION Spec
CONSTANTS MaxLines = 3
          MaxAlts = 3
INVARIANT CaseOK
CHECK_DEADLOCK FALSE
