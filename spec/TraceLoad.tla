------------------------------ MODULE TraceLoad ------------------------------
(***************************************************************************)
(* C10 (positions) / C11 - trace validation of what the three loaders      *)
(* (validate: libyaml loader; test: serde_yaml on the test file;           *)
(* run_checks: serde_json then serde_yaml) make of texts written by the    *)
(* specification.                                                          *)
(*  doc     a document D written by GuardLoad.Ser(D, fmt, lay):            *)
(*          text      the text fed to the loaders is Ser's text            *)
(*          validate-value / lib-value  the dumped loaded document is D    *)
(*          test-same  `this == <D as Guard literal>` is PASS in `test`    *)
(*          positions every [L,C] reported for a scalar is the position    *)
(*                    Ser recorded for it                                  *)
(*  scalar  `v: <spelling>` in a style: typed (all loaders give the type   *)
(*          ExpectedType says) or agree (all loaders give the same type)   *)
(*  tag     `v: !Short payload` loads as {v: {Long: payload}}              *)
(*  reject  text that is not a well-formed document / has a non-string key *)
(*          / uses an alias is an error for every loader                   *)
(***************************************************************************)
EXTENDS GuardLoad, Json, IOUtils

Rec == ndJsonDeserialize(IOEnv.TRACE)
VARIABLE l

Relate(i, name, holds) ==
  IF holds THEN PrintT(<<"RELATE", i, "ok", name>>) ELSE PrintT(<<"RELATE", i, "broken", name>>)

SetOf(seq) == {seq[i] : i \in 1 .. Len(seq)}
kv == <<118>>
StrVal(cp) == [t |-> "str", v |-> cp]

JudgeDoc(line) ==
  LET w == Ser(line.doc, line.fmt, line.lay)
      o == line.obs
      want == {<<x.p, x.lc[1], x.lc[2]>> : x \in SetOf(Positions(w))}
      got == {<<x.p, x.l, x.c>> : x \in SetOf(o.validate.pos)} IN
  /\ Relate(line.i, "text", w.txt = line.txt)
  /\ Relate(line.i, "validate-value", o.validate.ok /\ o.validate.val = line.doc)
  /\ Relate(line.i, "lib-value", o.lib.ok /\ o.lib.val = line.doc)
  /\ Relate(line.i, "test-same", o.test.ok /\ o.test.same = "PASS")
  /\ Relate(line.i, "positions", o.validate.ok /\ got = want)
  \* the same document handed over inside a payload: positions are counted in the document's own text
  /\ Relate(line.i, "payload-positions",
            {<<x.p, x.l, x.c>> : x \in SetOf(o.validate.ppos)} = want)
  \* the SARIF report of the same run: the message of a result names the scalar with its position,
  \* and the region of the result is the (1-based) position of one of the values the message names
  \* (the implementation takes the compared-to value: 1:1 for a literal of the rules file)
  /\ Relate(line.i, "sarif-regions",
            /\ o.validate.ok
            /\ {<<x.p, x.l, x.c>> : x \in SetOf(o.validate.spos)} = want
            /\ \A x \in SetOf(o.validate.spos) : x.rn)

JudgeScalar(line) ==
  LET e == ExpectedType(line.cp, line.style)
      o == line.obs
      ts == {o.validate.type, o.lib.type, o.test.type} IN
  IF e # "other"
  THEN /\ Relate(line.i, "typed", ts = {e})
       /\ Relate(line.i, "string-value",
                 e = "str" => (o.validate.val = StrVal(line.cp) /\ o.lib.val = StrVal(line.cp)))
  ELSE Relate(line.i, "agree", Cardinality(ts) = 1)

JudgeTag(line) ==
  LET want == [t |-> "map", k |-> <<kv>>,
               v |-> <<[t |-> "map", k |-> <<LongForm(line.tag)>>, v |-> <<line.payload>>]>>]
      o == line.obs IN
  /\ Relate(line.i, "tag-validate", o.validate.ok /\ o.validate.val = want)
  /\ Relate(line.i, "tag-lib", o.lib.ok /\ o.lib.val = want)
  /\ Relate(line.i, "tag-test", o.test.ok /\ o.test.same = "PASS")

JudgeReject(line) ==
  /\ Relate(line.i, "rejected-validate", ~line.obs.validate.ok)
  /\ Relate(line.i, "rejected-lib", ~line.obs.lib.ok)
  /\ Relate(line.i, "rejected-test", ~line.obs.test.ok)

\* a JSON document {"v": "<escaped spelling>"}: the loader of validate and the loader of the library
\* entry point yield the string the spelling stands for
JudgeEscape(line) ==
  LET want == StrVal(Unescape(line.cp, 1))
      o == line.obs IN
  /\ Relate(line.i, "escape-validate", o.validate.val = want)
  /\ Relate(line.i, "escape-lib", o.lib.val = want)

Judge(line) ==
  CASE line.kind = "doc" -> JudgeDoc(line)
    [] line.kind = "escape" -> JudgeEscape(line)
    [] line.kind = "scalar" -> JudgeScalar(line)
    [] line.kind = "tag" -> JudgeTag(line)
    [] line.kind = "reject" -> JudgeReject(line)

Init == l = 1
Next == l <= Len(Rec) /\ Judge(Rec[l]) /\ l' = l + 1
Spec == Init /\ [][Next]_l
TraceAccepted ==
  LET d == TLCGet("stats").diameter IN
  IF d - 1 = Len(Rec) THEN TRUE ELSE Print(<<"TRACE-REJECTED at line", d>>, FALSE)
=============================================================================
