------------------------------- MODULE MC_Cnf -------------------------------
(***************************************************************************)
(* C02: the CNF combinator at every call site.                             *)
(*                                                                         *)
(* All CNF shapes up to MaxLines lines x MaxAlts alternatives whose leaves *)
(* are forced to PASS / FAIL / SKIP (60 879 assignments for 3 x 3), placed *)
(* in each of the contexts in which the implementation combines statuses:  *)
(*   1 rule body          2 when-block body      3 query-block body        *)
(*   4 type-block body    5 filter               6 when conditions         *)
(*   7 file (one rule per line, single alternative)                        *)
(* TLC builds the shapes breadth-first (AddLeaf / NewLine), evaluates each *)
(* with the specification, checks that the resulting status is the one the *)
(* property's combination rules give (CnfLaw), and prints a REPLAY line    *)
(* with the serialised record tree for the harness to compare with the     *)
(* implementation's record.                                                *)
(***************************************************************************)
EXTENDS GuardEval, Json, IOUtils

CONSTANTS MaxLines, MaxAlts

ka == <<97>>  kb == <<98>>  kx == <<120>>
I(n) == [t |-> "int", v |-> n]
S(cp) == [t |-> "str", v |-> cp]
L(xs) == [t |-> "list", v |-> xs]
M(ks, vs) == [t |-> "map", k |-> ks, v |-> vs]
K(k) == [p |-> "key", k |-> k]
Gac(q, op, on, rhs) ==
  [c |-> "gac", q |-> q, all |-> TRUE, neg |-> FALSE, op |-> op, on |-> on, rhs |-> rhs]

\* every context value has the same shape below it: {b: 1, a: [{b: 1}]}
Inner == M(<<kb>>, <<I(1)>>)
V0 == M(<<kb, ka>>, <<I(1), L(<<Inner>>)>>)
TypeName == <<84, 58, 58, 65, 58, 58, 66>>       \* T::A::B
kRes == <<82, 101, 115, 111, 117, 114, 99, 101, 115>>
kType == <<84, 121, 112, 101>>
kr1 == <<114, 49>>
Doc == M(<<kb, ka, kx, kRes>>,
         <<I(1), L(<<V0>>), V0,
           M(<<kr1>>, <<M(<<kType, kb, ka>>, <<S(TypeName), I(1), L(<<Inner>>)>>)>>)>>)

LeafP == Gac(<<K(ka)>>, "exists", FALSE, <<>>)
LeafF == Gac(<<K(ka)>>, "exists", TRUE, <<>>)
LeafS == Gac(<<K(ka), [p |-> "filter", c |-> <<<<Gac(<<K(kb)>>, "eq", FALSE, <<[r |-> "val", v |-> I(99)]>>)>>>>]>>,
             "exists", FALSE, <<>>)
Leaf(s) == CASE s = "P" -> LeafP [] s = "F" -> LeafF [] s = "S" -> LeafS

Contexts == 1 .. 7

VARIABLES ctx, cnf
vars == <<ctx, cnf>>

AsCnf(c) == [i \in 1 .. Len(c) |-> [j \in 1 .. Len(c[i]) |-> Leaf(c[i][j])]]

Rule(n, w, b) == [n |-> n, w |-> w, lets |-> <<>>, b |-> b]
File(rules) == [lets |-> <<>>, prules |-> <<>>, rules |-> rules]
One(c) == <<<<c>>>>

Program(x, c) ==
  LET body == AsCnf(c) IN
  CASE x = 1 -> File(<<Rule("r", <<>>, body)>>)
    [] x = 2 -> File(<<Rule("r", <<>>, One([c |-> "when", w |-> One(LeafP), lets |-> <<>>, b |-> body]))>>)
    [] x = 3 -> File(<<Rule("r", <<>>, One([c |-> "block", q |-> <<K(kx)>>, all |-> TRUE, ne |-> FALSE,
                                            lets |-> <<>>, b |-> body]))>>)
    [] x = 4 -> File(<<Rule("r", <<>>, One([c |-> "type", tn |-> "T::A::B", tnc |-> TypeName, w |-> <<>>,
                                            lets |-> <<>>, b |-> body]))>>)
    [] x = 5 -> File(<<Rule("r", <<>>, One(Gac(<<K(ka), [p |-> "filter", c |-> body]>>, "exists", FALSE, <<>>)))>>)
    [] x = 6 -> File(<<Rule("r", body, One(LeafP))>>)
    [] x = 7 -> File([i \in 1 .. Len(c) |-> Rule("r" \o ToString(i), <<>>, One(Leaf(c[i][1])))])

\* CTXS (environment): comma separated context numbers to explore; empty = all
CtxSel == IF "CTXS" \in DOMAIN IOEnv /\ IOEnv.CTXS # ""
          THEN {x \in Contexts : \E a, b \in 1 .. 7 : IOEnv.CTXS = ToString(a) \o "," \o ToString(b) /\ x \in {a, b}}
          ELSE Contexts
Init == ctx \in CtxSel /\ cnf = <<>>

AddLeaf == /\ Len(cnf) > 0 /\ Len(cnf[Len(cnf)]) < MaxAlts /\ ctx # 7
           /\ \E s \in {"P", "F", "S"} : cnf' = [cnf EXCEPT ![Len(cnf)] = Append(@, s)]
           /\ UNCHANGED ctx
NewLine == /\ Len(cnf) < MaxLines
           /\ \E s \in {"P", "F", "S"} : cnf' = Append(cnf, <<s>>)
           /\ UNCHANGED ctx
Next == AddLeaf \/ NewLine
Spec == Init /\ [][Next]_vars

---------------------------------------------------------------------------
\* the property's combination rules, stated on the leaf symbols alone
LineStatus(line) ==
  IF \E j \in 1 .. Len(line) : line[j] = "P" THEN "PASS"
  ELSE IF \E j \in 1 .. Len(line) : line[j] = "F" THEN "FAIL" ELSE "SKIP"
CnfStatus(c) ==
  IF \E i \in 1 .. Len(c) : LineStatus(c[i]) = "FAIL" THEN "FAIL"
  ELSE IF \E i \in 1 .. Len(c) : LineStatus(c[i]) = "PASS" THEN "PASS" ELSE "SKIP"

\* serialisation of a record tree: kind letter, status letter, children in parentheses
KindChar(k) ==
  CASE k = "File" -> "f" [] k = "Rule" -> "r" [] k = "RuleCond" -> "c" [] k = "Disj" -> "d"
    [] k = "Clause" -> "l" [] k = "Value" -> "v" [] k = "Block" -> "b" [] k = "When" -> "w"
    [] k = "WhenCond" -> "x" [] k = "TypeCheck" -> "t" [] k = "TypeCond" -> "u"
    [] k = "TypeBlock" -> "y" [] k = "Filter" -> "q" [] OTHER -> "?"
StChar(s) == CASE s = "PASS" -> "P" [] s = "FAIL" -> "F" [] s = "SKIP" -> "S" [] OTHER -> "?"
RECURSIVE Ser(_), SerSeq(_, _)
SerSeq(ns, i) == IF i > Len(ns) THEN "" ELSE Ser(ns[i]) \o SerSeq(ns, i + 1)
Ser(n) == KindChar(n.k) \o StChar(n.st) \o (IF Len(n.ch) = 0 THEN "" ELSE "(" \o SerSeq(n.ch, 1) \o ")")

RECURSIVE CnfText(_, _)
LineText(line) == IF Len(line) = 1 THEN line[1] ELSE IF Len(line) = 2 THEN line[1] \o line[2]
                  ELSE line[1] \o line[2] \o line[3]
CnfText(c, i) == IF i > Len(c) THEN "" ELSE LineText(c[i]) \o (IF i < Len(c) THEN "|" ELSE "") \o CnfText(c, i + 1)

\* status of the filter conjunction evaluated on the (only) element of `a`, and its record
FilterEval ==
  LET X == [F |-> Program(5, cnf), dev |-> {}, tab |-> <<>>]
      root == DocPaths(Doc)
      env == <<[k |-> "root", root |-> root, lets |-> <<>>], VScope(root.v[2].v[1])>>
      r == EvalCnf(X, AsCnf(cnf), env)
  IN Node("Filter", r.st, "", r.ns)

CaseOK ==
  Len(cnf) > 0 =>
  LET d == Denote(Program(ctx, cnf), Doc, {})
      want == CnfStatus(cnf)
      rs == d.rules[1][2]
  IN
  /\ d.kind = "ok"
  /\ PrintT(<<"REPLAY", ToJson([x |-> ctx, c |-> CnfText(cnf, 1), t |-> Ser(d.tree),
                                f |-> IF ctx = 5 THEN Ser(FilterEval) ELSE ""])>>)
  \* CnfLaw: what the context makes of the conjunction's status
  /\ CASE ctx \in {1, 2, 3, 4} -> rs = want
       [] ctx = 5 -> FilterEval.st = want /\ rs = (IF want = "PASS" THEN "PASS" ELSE "SKIP")
       [] ctx = 6 -> rs = (IF want = "PASS" THEN "PASS" ELSE "SKIP")
       [] ctx = 7 -> d.file = want

\* C04: the combination rules do not depend on the order or repetition of lines and
\* alternatives (every permuted / repeated shape is itself a state of this model, where
\* CaseOK ties the specification's evaluator - and through the replay the implementation -
\* to CnfStatus)
PermSeq(s, f) == [i \in 1 .. Len(s) |-> s[f[i]]]
PermLaw ==
  Len(cnf) > 0 =>
  LET want == CnfStatus(cnf) IN
  /\ \A f \in Permutations(1 .. Len(cnf)) : CnfStatus(PermSeq(cnf, f)) = want
  /\ \A i \in 1 .. Len(cnf) : \A f \in Permutations(1 .. Len(cnf[i])) :
        CnfStatus([cnf EXCEPT ![i] = PermSeq(cnf[i], f)]) = want
  /\ \A i \in 1 .. Len(cnf) : CnfStatus(Append(cnf, cnf[i])) = want
  /\ \A i \in 1 .. Len(cnf) : \A j \in 1 .. Len(cnf[i]) :
        CnfStatus([cnf EXCEPT ![i] = Append(@, cnf[i][j])]) = want

ASSUME PrintT(<<"TABLE", "doc", ToJson(Doc)>>)
ASSUME PrintT(<<"TABLE", "leaves", ToJson([P |-> LeafP, F |-> LeafF, S |-> LeafS])>>)
Holes == <<"/rules/0/b", "/rules/0/b/0/0/b", "/rules/0/b/0/0/b", "/rules/0/b/0/0/b",
           "/rules/0/b/0/0/q/1/c", "/rules/0/w", "">>
ASSUME PrintT(<<"TABLE", "holes", ToJson(Holes)>>)
ASSUME PrintT(<<"TABLE", "programs", ToJson([x \in Contexts |-> Program(x, <<<<"P">>>>)])>>)
=============================================================================
