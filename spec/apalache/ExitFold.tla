------------------------------- MODULE ExitFold -------------------------------
(***************************************************************************)
(* C06, unbounded: the three exit-code folds of `cfn-guard validate`       *)
(* (GuardCli.Step: plain path, structured path, junit path) as a machine   *)
(* over file-level events, for ANY number of rules files, data files and   *)
(* pairs.  IndInv is an inductive invariant (checked by Apalache:          *)
(*   Init => IndInv          and      IndInv /\ Next => IndInv')           *)
(* and implies Allowed, the exit codes property C06 permits:               *)
(*   no failure, no broken file -> 0;  failures only -> 19;                *)
(*   broken files only -> 5;  both -> 5 or 19.                             *)
(* MC_Cli checks with TLC that GuardCli.Run agrees with this abstraction   *)
(* on every bounded scenario (FoldAgrees), which ties the unbounded        *)
(* argument to the driver model that TraceCli binds to the code.           *)
(***************************************************************************)
EXTENDS Integers

VARIABLES
  \* @type: Str;
  path,
  \* @type: Str;
  phase,
  \* @type: Int;
  exit,
  \* @type: Bool;
  seenFail,
  \* @type: Bool;
  seenBroken

Paths == {"plain", "structured", "junit"}

Init ==
  /\ path \in Paths
  /\ phase = (IF path = "plain" THEN "rules" ELSE "parse")
  /\ exit = 0 /\ seenFail = FALSE /\ seenBroken = FALSE

\* plain: one event per rules file (validate.rs execute): a broken file sets 5, a file with a
\* failing pair sets 19, anything else leaves the code alone (last non-zero wins)
PlainBroken == path = "plain" /\ phase = "rules" /\ exit' = 5 /\ seenBroken' = TRUE /\ UNCHANGED <<path, phase, seenFail>>
PlainFails  == path = "plain" /\ phase = "rules" /\ exit' = 19 /\ seenFail' = TRUE /\ UNCHANGED <<path, phase, seenBroken>>
PlainPasses == path = "plain" /\ phase = "rules" /\ UNCHANGED <<path, phase, exit, seenFail, seenBroken>>
PlainDone   == path = "plain" /\ phase = "rules" /\ phase' = "done" /\ UNCHANGED <<path, exit, seenFail, seenBroken>>

\* structured / junit: every rules file is parsed first ...
ParseBroken == path # "plain" /\ phase = "parse" /\ exit' = 5 /\ seenBroken' = TRUE /\ UNCHANGED <<path, phase, seenFail>>
ParseOk     == path # "plain" /\ phase = "parse" /\ UNCHANGED <<path, phase, exit, seenFail, seenBroken>>
ParseDone   == path # "plain" /\ phase = "parse" /\ phase' = "pairs" /\ UNCHANGED <<path, exit, seenFail, seenBroken>>
\* ... then the pairs are evaluated: the common structured reporter sets 19 at once, the JUnit
\* reporter counts failures and folds them in at the end without overriding a parse error
PairFails ==
  /\ path # "plain" /\ phase = "pairs" /\ seenFail' = TRUE
  /\ exit' = (IF path = "structured" THEN 19 ELSE exit)
  /\ UNCHANGED <<path, phase, seenBroken>>
PairPasses == path # "plain" /\ phase = "pairs" /\ UNCHANGED <<path, phase, exit, seenFail, seenBroken>>
PairsDone ==
  /\ path # "plain" /\ phase = "pairs" /\ phase' = "done"
  /\ exit' = (IF path = "junit" /\ seenFail /\ exit # 5 THEN 19 ELSE exit)
  /\ UNCHANGED <<path, seenFail, seenBroken>>
Stutter == phase = "done" /\ UNCHANGED <<path, phase, exit, seenFail, seenBroken>>

Next == PlainBroken \/ PlainFails \/ PlainPasses \/ PlainDone \/ ParseBroken \/ ParseOk \/ ParseDone
        \/ PairFails \/ PairPasses \/ PairsDone \/ Stutter

Allowed ==
  IF ~seenFail /\ ~seenBroken THEN exit = 0
  ELSE IF seenFail /\ ~seenBroken THEN exit = 19
  ELSE IF ~seenFail THEN exit = 5
  ELSE exit \in {5, 19}

TypeOK ==
  /\ path \in Paths
  /\ phase \in {"rules", "parse", "pairs", "done"}
  /\ exit \in {0, 5, 19}
  /\ seenFail \in BOOLEAN /\ seenBroken \in BOOLEAN

IndInv ==
  /\ TypeOK
  /\ path = "plain" => phase \in {"rules", "done"}
  /\ path # "plain" => phase \in {"parse", "pairs", "done"}
  /\ phase = "parse" => ~seenFail
  /\ (path = "plain") => Allowed
  /\ (path = "structured") => exit = (IF seenFail THEN 19 ELSE IF seenBroken THEN 5 ELSE 0)
  /\ (path = "junit" /\ phase # "done") => exit = (IF seenBroken THEN 5 ELSE 0)
  /\ (path = "junit" /\ phase = "done") => exit = (IF seenBroken THEN 5 ELSE IF seenFail THEN 19 ELSE 0)

\* the property: when the run is over the exit code is one the property allows
Final == phase = "done" => Allowed

IndInit == IndInv
=============================================================================
