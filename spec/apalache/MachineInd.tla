------------------------------ MODULE MachineInd ------------------------------
(***************************************************************************)
(* C04 / C12 / C15, unbounded histories: the rule-status cache and the     *)
(* evaluation stack of GuardMachine (same actions, typed for Apalache,     *)
(* without the variable memo) for ANY sequence of events.                   *)
(* IndInv is an inductive invariant:                                       *)
(*   NoRepeat   no rule name is on the evaluation stack twice (a rule that *)
(*              is being computed is never computed again below itself:    *)
(*              the recursion of rule_status / eval_rule is bounded)       *)
(*   Pending    a name on the stack has no cached status yet               *)
(* and SingleAssignment is an action invariant: a cached status never      *)
(* changes and never disappears except when a new RootScope is created     *)
(* (NewRoot: nothing survives from one (rules, data) pair to the next).    *)
(* TraceMemo validates the hook events of the implementation against the   *)
(* same actions (GuardMachine), which ties this argument to the code.      *)
(***************************************************************************)
EXTENDS Integers, Sequences, FiniteSets, Apalache

CONSTANTS
  \* @type: Set(Str);
  Names,
  \* @type: Set(Str);
  Statuses

VARIABLES
  \* @type: Str -> Str;
  cache,
  \* @type: Seq(Str);
  stack,
  \* @type: Bool;
  fresh

ConstInit == Names = {"r1", "r2", "r3", "r4"} /\ Statuses = {"PASS", "FAIL", "SKIP"}

\* @type: (Str) => Bool;
OnStack(name) == \E i \in DOMAIN stack : stack[i] = name

Init == cache = [x \in {} |-> "PASS"] /\ stack = <<>> /\ fresh = TRUE

NewRoot == cache' = [x \in {} |-> "PASS"] /\ stack' = <<>> /\ fresh' = TRUE

RuleEvalBegin(name) ==
  /\ name \notin DOMAIN cache
  /\ ~OnStack(name)
  /\ stack' = Append(stack, name)
  /\ fresh' = FALSE
  /\ UNCHANGED cache

RuleStatusMiss(name, st) ==
  /\ Len(stack) > 0 /\ stack[Len(stack)] = name
  /\ name \notin DOMAIN cache
  /\ cache' = [x \in (DOMAIN cache) \union {name} |-> IF x = name THEN st ELSE cache[x]]
  /\ stack' = SubSeq(stack, 1, Len(stack) - 1)
  /\ fresh' = FALSE

RuleStatusHit(name, st) ==
  /\ name \in DOMAIN cache /\ cache[name] = st
  /\ fresh' = FALSE
  /\ UNCHANGED <<cache, stack>>

Next ==
  \/ NewRoot
  \/ \E n \in Names : RuleEvalBegin(n)
  \/ \E n \in Names, s \in Statuses : RuleStatusMiss(n, s)
  \/ \E n \in Names, s \in Statuses : RuleStatusHit(n, s)

TypeOK ==
  /\ DOMAIN cache \subseteq Names
  /\ \A n \in DOMAIN cache : cache[n] \in Statuses
  /\ Len(stack) <= Cardinality(Names)
  /\ \A i \in DOMAIN stack : stack[i] \in Names
  /\ fresh \in BOOLEAN

NoRepeat == \A i, j \in DOMAIN stack : i # j => stack[i] # stack[j]
Pending == \A i \in DOMAIN stack : stack[i] \notin DOMAIN cache
IndInv == TypeOK /\ NoRepeat /\ Pending

\* any state satisfying the invariant (Apalache: Gen(n) is an arbitrary value of bounded size)
IndInit == cache = Gen(4) /\ stack = Gen(4) /\ fresh \in BOOLEAN /\ IndInv

\* an action invariant: outside NewRoot a cached status is kept as it is
SingleAssignment ==
  fresh' \/ (\A n \in DOMAIN cache : n \in DOMAIN cache' /\ cache'[n] = cache[n])
=============================================================================
