SPECIFICATION Spec
POSTCONDITION TraceAccepted
CHECK_DEADLOCK FALSE
