SPECIFICATION Spec
CONSTANTS
  Queries <- C13Queries
  Docs <- C13Docs
  Rhs <- C13Rhs
  OpRhs <- C13OpRhs
  Quantifiers <- C13Quantifiers
  Allowed <- C13Allowed
INVARIANT Emit
INVARIANT PairLaws
INVARIANT EqLaws
INVARIANT LoadedEqLaws
INVARIANT RangeLaws
INVARIANT RegexLaws
INVARIANT InListLaws
CHECK_DEADLOCK FALSE
