------------------------------ MODULE MC_Clause ------------------------------
(***************************************************************************)
(* Generic machinery for enumerating single-clause programs with TLC:      *)
(* a state is (query shape, document, quantifier, operator/right-hand side)*)
(* drawn from the tables Queries, Docs, Rhs, OpRhs supplied by the model   *)
(* (MC_E1, MC_C13).  The tables are printed once as TABLE lines; each      *)
(* state is printed as a REPLAY line with the outcome the specification    *)
(* assigns to the clause in its 2-4 polarities (prefix not x operator not).*)
(***************************************************************************)
EXTENDS GuardEval, Json, IOUtils

CONSTANTS Queries, Docs, Rhs, OpRhs, Quantifiers, Allowed(_, _)

\* ---- leaves -------------------------------------------------------------
I(n) == [t |-> "int", v |-> n]
F(m) == [t |-> "flt", v |-> m]
S(cp) == [t |-> "str", v |-> cp]
B(b) == [t |-> "bool", v |-> b]
N == [t |-> "null"]
L(xs) == [t |-> "list", v |-> xs]
M(ks, vs) == [t |-> "map", k |-> ks, v |-> vs]
RE(s, e, cp) == [t |-> "re", s |-> s, e |-> e, v |-> cp]
RI(lo, hi, inc) == [t |-> "rint", lo |-> lo, hi |-> hi, inc |-> inc]
RF(lo, hi, inc) == [t |-> "rflt", lo |-> lo, hi |-> hi, inc |-> inc]

\* ---- query shapes -------------------------------------------------------
K(k) == [p |-> "key", k |-> k]
All == [p |-> "all"]
Idx == [p |-> "idx"]
At(i) == [p |-> "at", i |-> i]
This == [p |-> "this"]
Gac(q, all, neg, op, on, rhs) ==
  [c |-> "gac", q |-> q, all |-> all, neg |-> neg, op |-> op, on |-> on, rhs |-> rhs]
Val(v) == [r |-> "val", v |-> v]
Qr(q) == [r |-> "q", q |-> q, all |-> TRUE]
Flt(cnf) == [p |-> "filter", c |-> cnf]

HasOpNot(op) == op \in {"eq", "in"} \/ IsUnaryOp(op)

\* ---- state space --------------------------------------------------------
VARIABLES qi, di, al, oi, phase

Slice == IF "SLICE" \in DOMAIN IOEnv THEN atoi(IOEnv.SLICE) ELSE 0      \* 0 = everything
Slices == IF "SLICES" \in DOMAIN IOEnv THEN atoi(IOEnv.SLICES) ELSE 1

Init ==
  /\ qi \in 1 .. Len(Queries)
  /\ di \in {d \in 1 .. Len(Docs) : Slice = 0 \/ (d % Slices) = (Slice % Slices)}
  /\ al = TRUE /\ oi = 0 /\ phase = "seed"

Next ==
  /\ phase = "seed"
  /\ phase' = "case"
  /\ al' \in Quantifiers
  /\ oi' \in {o \in 1 .. Len(OpRhs) : Allowed(di, o)}
  /\ UNCHANGED <<qi, di>>

vars == <<qi, di, al, oi, phase>>
Spec == Init /\ [][Next]_vars

Clause(neg, on) ==
  LET op == OpRhs[oi][1]
      ri == OpRhs[oi][2] IN
  Gac(Queries[qi], al, neg, op, on, IF ri = 0 THEN <<>> ELSE <<Rhs[ri]>>)

Prog(c) == [lets |-> <<>>, prules |-> <<>>,
            rules |-> <<[n |-> "r", w |-> <<>>, lets |-> <<>>, b |-> <<<<c>>>>]>>]

\* outcome of one polarity: [st |-> status | "ERR", m |-> marks of the value checks | error kind]
RECURSIVE Marks(_, _)
Marks(ch, i) == IF i > Len(ch) THEN "" ELSE
                (IF ch[i].st = "PASS" THEN "P" ELSE "F") \o Marks(ch, i + 1)
Outcome(neg, on) ==
  LET d == Denote(Prog(Clause(neg, on)), Docs[di], {}) IN
  IF d.kind = "err" THEN [st |-> "ERR", m |-> d.e]
  ELSE [st |-> d.rules[1][2], m |-> Marks(d.tree.ch[1].ch[1].ch, 1)]

Dual(op) == CASE op = "gt" -> "le" [] op = "le" -> "gt" [] op = "lt" -> "ge" [] op = "ge" -> "lt"

\* the left- and right-hand results of the current clause, straight from the query engine
Root == DocPaths(Docs[di])
RootEnv == <<[k |-> "root", root |-> Root, lets |-> <<>>]>>
X0 == [F |-> Prog(Clause(FALSE, FALSE)), dev |-> {}, tab |-> <<>>]
Lhs == Query(X0, Queries[qi], 1, Root, RootEnv)
RhsRes == LET ri == OpRhs[oi][2] IN ResolveRhs(X0, Rhs[ri], RootEnv)


FlipSt(s) == IF s = "PASS" THEN "FAIL" ELSE IF s = "FAIL" THEN "PASS" ELSE s

\* the four (two) polarities of the current state and its REPLAY line
Polarities ==
  LET op == OpRhs[oi][1]
      oFF == Outcome(FALSE, FALSE)
      oTF == Outcome(TRUE, FALSE)
  IN IF HasOpNot(op) THEN <<oFF, Outcome(FALSE, TRUE), oTF, Outcome(TRUE, TRUE)>> ELSE <<oFF, oTF>>

EmitReplay(r) == PrintT(<<"REPLAY", ToJson([q |-> qi, d |-> di, all |-> al, o |-> oi, r |-> r])>>)

ASSUME PrintT(<<"TABLE", "queries", ToJson(Queries)>>)
ASSUME PrintT(<<"TABLE", "docs", ToJson(Docs)>>)
ASSUME PrintT(<<"TABLE", "rhs", ToJson(Rhs)>>)
ASSUME PrintT(<<"TABLE", "oprhs", ToJson(OpRhs)>>)
=============================================================================
