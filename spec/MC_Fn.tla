-------------------------------- MODULE MC_Fn --------------------------------
(***************************************************************************)
(* C18: built-in functions.  States: (function, argument value, argument   *)
(* form).  The argument value sits in the document under key `a`; the      *)
(* forms are                                                               *)
(*   1 query `a`        2 query `a[*]`      3 through a variable           *)
(*   4 literal (strings only)               5 nested: f(parse_string(a))   *)
(* For every state the specification computes the function's results R     *)
(* and a probing program                                                   *)
(*     let r = f(<form>)                                                   *)
(*     rule n  { let c = count(%r)   %c == |R| }                           *)
(*     rule eq when %r !empty { %r == <R as a literal> }                   *)
(*     rule ty { %r is_string or %r is_int or ... }                        *)
(* is printed as a REPLAY line with the verdicts Denote assigns; the       *)
(* harness runs it against the implementation.  The laws of the property   *)
(* are invariants of the specification.                                    *)
(***************************************************************************)
EXTENDS GuardEval, Json, IOUtils

I(n) == [t |-> "int", v |-> n]
F(m) == [t |-> "flt", v |-> m]
S(cp) == [t |-> "str", v |-> cp]
B(b) == [t |-> "bool", v |-> b]
N == [t |-> "null"]
L(xs) == [t |-> "list", v |-> xs]
M(ks, vs) == [t |-> "map", k |-> ks, v |-> vs]
K(k) == [p |-> "key", k |-> k]
ka == <<97>>

Strs == << <<>>, <<97>>, <<97, 98, 99>>, <<72, 101, 108, 108, 111>>, <<49, 50>>, <<45, 51>>, <<43, 55>>,
           <<49, 46, 53>>, <<48, 46, 50, 53>>, <<116, 114, 117, 101>>, <<70, 65, 76, 83, 69>>,
           <<49, 50, 97>>, <<104, 233, 108, 108, 111>>, <<26085, 26412>>, <<120, 128512>>, <<32, 49>>,
           <<55>>, <<48, 48, 55>>, <<45>>, <<49, 46>> >>
FVals == [i \in 1 .. Len(Strs) |-> S(Strs[i])] \o
        <<I(0), I(7), I(-3), I(12), F(1500), F(-500), F(2000), B(TRUE), B(FALSE), N,
          L(<<>>), L(<<S(<<97>>), S(<<98>>)>>), L(<<S(<<49>>), I(2), N, S(<<120>>)>>),
          L(<<I(1), I(2), I(3)>>), M(<<ka>>, <<S(<<97>>)>>), M(<<>>, <<>>),
          L(<<S(<<>>), S(<<97>>), S(<<98>>)>>), L(<<S(<<>>), S(<<>>), S(<<120>>)>>), L(<<S(<<97>>), S(<<>>)>>),
          L(<<S(<<97>>)>>), L(<<S(<<>>)>>)>>

Fns == <<"count", "to_upper", "to_lower", "parse_int", "parse_float", "parse_boolean", "parse_string",
         "parse_char", "join", "substring">>
Forms == 1 .. 5

VARIABLES fi, vi, form, sub
vars == <<fi, vi, form, sub>>
\* sub: the (from, to) offsets for substring, the delimiter index for join
Init == fi \in 1 .. Len(Fns) /\ vi \in 1 .. Len(FVals) /\ form \in Forms
        /\ sub \in (IF Fns[fi] = "substring" THEN {<<0, 2>>, <<1, 3>>, <<0, 0>>, <<2, 1>>, <<1, 2>>, <<0, 9>>, <<3, 5>>}
                    ELSE IF Fns[fi] = "join" THEN {<<1, 0>>, <<2, 0>>} ELSE {<<0, 0>>})
Next == UNCHANGED vars
Spec == Init /\ [][Next]_vars

FVal(v) == [r |-> "val", v |-> v]
Qr(q) == [r |-> "q", q |-> q, all |-> TRUE]
Fn(f, a) == [r |-> "fn", f |-> f, a |-> a]

Applicable == form # 4 \/ FVals[vi].t = "str"

ArgForm ==
  CASE form = 1 -> Qr(<<K(ka)>>)
    [] form = 2 -> Qr(<<K(ka), [p |-> "idx"]>>)
    [] form = 3 -> Qr(<<[p |-> "var", n |-> "v"]>>)
    [] form = 4 -> FVal(FVals[vi])
    [] form = 5 -> Fn("parse_string", <<Qr(<<K(ka), [p |-> "idx"]>>)>>)

Delims == << <<44>>, <<>> >>
Call0 ==
  LET f == Fns[fi] IN
  CASE f = "join" -> Fn(f, <<ArgForm, FVal(S(Delims[sub[1]]))>>)
    [] f = "substring" -> Fn(f, <<ArgForm, FVal(I(sub[1])), FVal(I(sub[2]))>>)
    [] OTHER -> Fn(f, <<ArgForm>>)

Doc == M(<<ka>>, <<FVals[vi]>>)
Root == DocPaths(Doc)
Lets == <<[n |-> "v", v |-> Qr(<<K(ka)>>)], [n |-> "r", v |-> Call0]>>
X0 == [F |-> [lets |-> Lets, rules |-> <<>>, prules |-> <<>>], dev |-> {}, tab |-> <<>>]
RootEnv == <<[k |-> "root", root |-> Root, lets |-> Lets]>>
Result == ResolveRhs(X0, Call0, RootEnv)     \* [err, r] the function's results

Gac(q, op, on, rhs) == [c |-> "gac", q |-> q, all |-> TRUE, neg |-> FALSE, op |-> op, on |-> on, rhs |-> rhs]
RVar == <<[p |-> "var", n |-> "r"]>>
IsLitExpressible(v) == v.t \in {"str", "int", "bool", "null"} \/ (v.t = "flt" /\ v.v >= 0)

Program ==
  LET n == IF Result.err THEN 0 ELSE Len(Result.r)
      cntRule == [n |-> "n", w |-> <<>>, lets |-> <<[n |-> "c", v |-> Fn("count", <<Qr(RVar)>>)]>>,
                  b |-> <<<<Gac(<<[p |-> "var", n |-> "c"]>>, "eq", FALSE, <<FVal(I(n))>>)>>>>]
      tyRule == [n |-> "ty", w |-> <<>>, lets |-> <<>>,
                 b |-> <<<<Gac(RVar, "is_string", FALSE, <<>>), Gac(RVar, "is_int", FALSE, <<>>),
                           Gac(RVar, "is_float", FALSE, <<>>), Gac(RVar, "is_bool", FALSE, <<>>)>>>>]
      eqRules == IF ~Result.err /\ n = 1 /\ IsLitExpressible(Result.r[1].v)
                 THEN <<[n |-> "eq", w |-> <<>>, lets |-> <<>>,
                         b |-> <<<<Gac(RVar, "eq", FALSE, <<FVal(NoPaths(Result.r[1].v))>>)>>>>]>>
                 ELSE <<>>
  IN [lets |-> Lets, prules |-> <<>>, rules |-> <<cntRule, tyRule>> \o eqRules]

Emit ==
  Applicable =>
  LET d == Denote(Program, Doc, {}) IN
  /\ (d.kind = "err" /\ d.e = "unknown") \/
     PrintT(<<"REPLAY", ToJson([prog |-> Program, doc |-> Doc,
              expect |-> IF d.kind = "ok" THEN [kind |-> "ok", file |-> d.file, rules |-> d.rules]
                         ELSE [kind |-> "err", file |-> "", rules |-> <<>>]])>>)

\* ---- laws -----------------------------------------------------------------
ArgResults == LET r == ResolveRhs(X0, ArgForm, RootEnv) IN IF r.err THEN <<>> ELSE r.r

Laws ==
  (Applicable /\ ~Result.err) =>
  LET f == Fns[fi]
      args == ArgResults
      res == Result.r IN
  \* count(q) is the number of resolved values of q
  /\ (f = "count") => (Len(res) = 1 /\ res[1].v.t = "int" /\ res[1].v.v = Len(SelectSeq(args, NotUnres)))
  \* element-wise: never more results than resolved arguments; join yields one string
  /\ (f \notin {"count", "join"}) => Len(res) <= Len(SelectSeq(args, NotUnres))
  /\ (f = "join") => (Len(res) = 1 /\ res[1].v.t = "str")
  \* values of unsupported type are skipped: string functions only map strings
  /\ (f \in {"to_upper", "to_lower", "substring"}) =>
        Len(res) <= Len(SelectSeq(args, LAMBDA r : ~IsUnres(r) /\ r.v.t = "str"))
  \* results are resolved values of the documented type
  /\ \A i \in 1 .. Len(res) :
        /\ res[i].q = "res"
        /\ CASE f \in {"to_upper", "to_lower", "substring", "join", "parse_string"} -> res[i].v.t = "str"
             [] f \in {"count", "parse_int"} -> res[i].v.t = "int"
             [] f = "parse_float" -> res[i].v.t = "flt"
             [] f = "parse_boolean" -> res[i].v.t = "bool"
             [] OTHER -> TRUE
  \* substring(s, i, j) of an ASCII string is characters i..j
  /\ (f = "substring" /\ form = 1 /\ FVals[vi].t = "str" /\ \A k \in 1 .. Len(FVals[vi].v) : FVals[vi].v[k] < 128) =>
        IF sub[1] < sub[2] /\ sub[2] <= Len(FVals[vi].v) /\ Len(FVals[vi].v) > 0
        THEN Len(res) = 1 /\ res[1].v.v = SubSeq(FVals[vi].v, sub[1] + 1, sub[2])
        ELSE Len(res) = 0

\* parse_int(parse_string(n)) = n
RoundTrip ==
  (Fns[fi] = "parse_int" /\ form = 5 /\ FVals[vi].t = "int") =>
     (~Result.err /\ Len(Result.r) = 1 /\ Result.r[1].v.v = FVals[vi].v)

\* the parse_* converters raise an error - never a wrong value - for unparsable input
ParseErrors ==
  (Applicable /\ Fns[fi] = "parse_int" /\ form = 1 /\ FVals[vi].t = "str") =>
     LET digits == LET s == FVals[vi].v
                       body == IF Len(s) > 0 /\ s[1] \in {43, 45} THEN SubSeq(s, 2, Len(s)) ELSE s IN
                   Len(body) > 0 /\ \A k \in 1 .. Len(body) : body[k] >= 48 /\ body[k] <= 57 IN
     (Result.err <=> ~digits)
=============================================================================
