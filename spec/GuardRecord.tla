---------------------------- MODULE GuardRecord ----------------------------
(***************************************************************************)
(* C02: every composite status in the evaluation record follows from its   *)
(* parts.                                                                  *)
(*                                                                         *)
(* Explain(F, tree, rules) walks the rules file F (the AST) and an         *)
(* evaluation record tree in parallel and re-derives every composite       *)
(* status from the statuses of the node's children, using only the         *)
(* combination rules of the property:                                      *)
(*   line of or-joined clauses: PASS iff an alternative passed (evaluation *)
(*       stops there), FAIL iff none passed and one failed, else SKIP      *)
(*   block / rule body / when body: FAIL iff a line failed, PASS iff none  *)
(*       failed and one passed, else SKIP                                  *)
(*   rule / when / type block whose condition is not PASS: SKIP, body not  *)
(*       evaluated                                                         *)
(*   clause: all / some over its value checks, SKIP without value checks   *)
(*   query block: per selected value the body's status; unresolved values  *)
(*       count as FAIL; all / some over the values                         *)
(*   clause naming a rule: PASS iff that rule is PASS, inverted under not  *)
(*   file: FAIL iff a rule failed, PASS iff none failed and one passed     *)
(* The leaves (value checks) are taken as recorded: this check does not    *)
(* depend on the query engine or the operators of the specification.       *)
(*                                                                         *)
(* Nodes: [k, st, n, vk, ch] (harness projection of EventRecord; Filter    *)
(* nodes kept, children of value checks kept).                             *)
(* Result: "" when explained, otherwise a description of the first node    *)
(* that is not.                                                            *)
(***************************************************************************)
EXTENDS Integers, Sequences, FiniteSets, TLC

Agg(fails, passes) == IF fails > 0 THEN "FAIL" ELSE IF passes > 0 THEN "PASS" ELSE "SKIP"

NotFilter(n) == n.k # "Filter"
Kids(node) == SelectSeq(node.ch, NotFilter)

AggNodes(ns) ==
  Agg(Cardinality({i \in 1 .. Len(ns) : ns[i].st = "FAIL"}),
      Cardinality({i \in 1 .. Len(ns) : ns[i].st = "PASS"}))

\* status the implementation's rule_status assigns to a rule name, read off the file record
RefStatus(rules, name) ==
  LET idx == {i \in 1 .. Len(rules) : rules[i][1] = name /\ rules[i][2] # "SKIP"} IN
  IF idx = {} THEN "SKIP" ELSE rules[CHOOSE i \in idx : \A j \in idx : i <= j][2]

FindPR(F, name) ==
  LET idx == {i \in 1 .. Len(F.prules) : F.prules[i].n = name} IN
  IF idx = {} THEN 0 ELSE CHOOSE i \in idx : \A j \in idx : j <= i

RECURSIVE XLines(_, _, _, _, _, _, _, _), XDisj(_, _, _, _, _), XClause(_, _, _, _),
          XBlockValues(_, _, _, _, _, _, _), XTypeBlocks(_, _, _, _, _, _, _), XFilters(_, _)

\* Filter nodes anywhere below `node`: a filter's status is the conjunction of its lines
\* (AST-free: the children of a Filter node are its line nodes)
XFilters(node, j) ==
  IF j > Len(node.ch) THEN ""
  ELSE LET c == node.ch[j]
           \* a keys filter records one value check per key: PASS iff some key was selected
           keysFilter == \A i \in 1 .. Len(c.ch) : c.ch[i].k = "Value"
           want == IF keysFilter
                   THEN (IF \E i \in 1 .. Len(c.ch) : c.ch[i].st = "PASS" THEN "PASS" ELSE "SKIP")
                   ELSE AggNodes(Kids(c))
           here == IF c.k = "Filter" /\ Len(c.ch) > 0 /\ c.st # want
                   THEN "Filter status " \o c.st \o " does not follow from its lines" ELSE ""
           below == IF here # "" THEN here ELSE XFilters(c, 1)
       IN IF below # "" THEN below ELSE XFilters(node, j + 1)

\* what a clause contributes to its line: its record's status, except for a negated call of a
\* parameterised rule, whose record is the callee's rule record (the negation is applied above it)
Eff(c, node) == IF c.c = "pcall" /\ c.neg THEN (IF node.st = "PASS" THEN "FAIL" ELSE "PASS") ELSE node.st

\* consume the line nodes of `cnf` from nodes[k..]; result [why, st, k]
XLines(F, rules, cnf, j, nodes, k, fails, passes) ==
  IF j > Len(cnf) THEN [why |-> "", st |-> Agg(fails, passes), k |-> k]
  ELSE IF k > Len(nodes) THEN [why |-> "missing record for a line", st |-> "", k |-> k]
  ELSE
    LET line == cnf[j]
        node == nodes[k]
        w == IF Len(line) > 1 THEN XDisj(F, rules, line, node, 1) ELSE XClause(F, rules, line[1], node)
    IN IF w # "" THEN [why |-> w, st |-> "", k |-> k]
       ELSE LET st == IF Len(line) = 1 THEN Eff(line[1], node) ELSE node.st IN
            XLines(F, rules, cnf, j + 1, nodes, k + 1,
                   fails + (IF st = "FAIL" THEN 1 ELSE 0),
                   passes + (IF st = "PASS" THEN 1 ELSE 0))

XDisj(F, rules, alts, node, dummy) ==
  LET ch == Kids(node)
      n == Len(ch) IN
  IF node.k # "Disj" THEN "expected a Disjunction record, found " \o node.k
  ELSE IF n = 0 \/ n > Len(alts) THEN "disjunction with a wrong number of evaluated alternatives"
  ELSE IF \E i \in 1 .. (n - 1) : Eff(alts[i], ch[i]) = "PASS" THEN "alternatives evaluated after one passed"
  ELSE IF n < Len(alts) /\ Eff(alts[n], ch[n]) # "PASS" THEN "alternatives left unevaluated although none passed"
  ELSE IF node.st # (IF Eff(alts[n], ch[n]) = "PASS" THEN "PASS"
                     ELSE IF \E i \in 1 .. n : Eff(alts[i], ch[i]) = "FAIL" THEN "FAIL" ELSE "SKIP")
       THEN "disjunction status " \o node.st \o " does not follow from its alternatives"
  ELSE LET ws == {i \in 1 .. n : XClause(F, rules, alts[i], ch[i]) # ""} IN
       IF ws = {} THEN "" ELSE XClause(F, rules, alts[CHOOSE i \in ws : TRUE], ch[CHOOSE i \in ws : TRUE])

\* the children of a block record, value by value
XBlockValues(F, rules, c, ch, k, fails, passes) ==
  IF k > Len(ch) THEN [why |-> "", fails |-> fails, passes |-> passes]
  ELSE IF ch[k].k = "Value" THEN
         IF ch[k].vk # "MissingBlockValue" THEN [why |-> "unexpected value check under a block", fails |-> 0, passes |-> 0]
         ELSE XBlockValues(F, rules, c, ch, k + 1, fails + 1, passes)
  ELSE LET r == XLines(F, rules, c.b, 1, ch, k, 0, 0) IN
       IF r.why # "" THEN [why |-> r.why, fails |-> 0, passes |-> 0]
       ELSE XBlockValues(F, rules, c, ch, r.k,
                         fails + (IF r.st = "FAIL" THEN 1 ELSE 0),
                         passes + (IF r.st = "PASS" THEN 1 ELSE 0))

XTypeBlocks(F, rules, c, ch, k, fails, passes) ==
  IF k > Len(ch) THEN [why |-> "", fails |-> fails, passes |-> passes]
  ELSE IF ch[k].k # "TypeBlock" THEN [why |-> "expected a TypeBlock record", fails |-> 0, passes |-> 0]
  ELSE LET body == Kids(ch[k])
           r == XLines(F, rules, c.b, 1, body, 1, 0, 0) IN
       IF r.why # "" THEN [why |-> r.why, fails |-> 0, passes |-> 0]
       ELSE IF r.k # Len(body) + 1 THEN [why |-> "extra records in a type block", fails |-> 0, passes |-> 0]
       ELSE IF r.st # ch[k].st THEN [why |-> "type block status " \o ch[k].st \o " does not follow from its lines", fails |-> 0, passes |-> 0]
       ELSE XTypeBlocks(F, rules, c, ch, k + 1,
                        fails + (IF r.st = "FAIL" THEN 1 ELSE 0),
                        passes + (IF r.st = "PASS" THEN 1 ELSE 0))

\* a condition record followed by the body: shared by rule, when block and parameterised call
XCondBody(F, rules, w, b, ch, condKind, st, what) ==
  LET hasCond == Len(w) > 0 IN
  IF hasCond /\ (Len(ch) = 0 \/ ch[1].k # condKind) THEN what \o ": missing condition record"
  ELSE
    LET condOk == IF hasCond
                  THEN LET cc == Kids(ch[1])
                           r == XLines(F, rules, w, 1, cc, 1, 0, 0) IN
                       IF r.why # "" THEN r.why
                       ELSE IF r.k # Len(cc) + 1 THEN what \o ": extra records in the condition"
                       ELSE IF r.st # ch[1].st THEN what \o ": condition status does not follow from its lines"
                       ELSE ""
                  ELSE ""
        body == IF hasCond THEN Tail(ch) ELSE ch
    IN IF condOk # "" THEN condOk
       ELSE IF hasCond /\ ch[1].st # "PASS" THEN
              IF st # "SKIP" THEN what \o ": condition not PASS but status is " \o st
              ELSE IF Len(body) # 0 THEN what \o ": body evaluated although the condition is not PASS"
              ELSE ""
       ELSE LET r == XLines(F, rules, b, 1, body, 1, 0, 0) IN
            IF r.why # "" THEN r.why
            ELSE IF r.k # Len(body) + 1 THEN what \o ": extra records in the body"
            ELSE IF r.st # st THEN what \o ": status " \o st \o " does not follow from its lines (" \o r.st \o ")"
            ELSE ""

XClause(F, rules, c, node) ==
  LET ch == Kids(node) IN
  CASE c.c = "gac" ->
         IF node.k # "Clause" THEN "expected a clause record, found " \o node.k
         ELSE IF \E i \in 1 .. Len(ch) : ch[i].k # "Value" THEN "clause record with a child that is not a value check"
         ELSE IF Len(ch) = 0 THEN
                \* no value checks: SKIP (the query selected nothing) or the vacuous all / some
                (IF node.st = "SKIP" \/ node.st = (IF c.all THEN "PASS" ELSE "FAIL") THEN ""
                 ELSE "clause without value checks is " \o node.st)
         ELSE LET anyF == \E i \in 1 .. Len(ch) : ch[i].st = "FAIL"
                  anyP == \E i \in 1 .. Len(ch) : ch[i].st = "PASS"
                  want == IF c.all THEN (IF anyF THEN "FAIL" ELSE "PASS") ELSE (IF anyP THEN "PASS" ELSE "FAIL")
              IN IF node.st = want THEN "" ELSE "clause status " \o node.st \o " does not follow from its value checks (" \o want \o ")"
    [] c.c = "named" ->
         IF node.k # "Value" THEN "expected a value check for a rule reference, found " \o node.k
         ELSE LET want == IF (RefStatus(rules, c.n) = "PASS") # c.neg THEN "PASS" ELSE "FAIL" IN
              IF node.st = want THEN "" ELSE "rule reference " \o c.n \o " is " \o node.st \o ", expected " \o want
    [] c.c = "block" ->
         IF node.k # "Block" THEN "expected a block record, found " \o node.k
         ELSE IF Len(ch) = 0 THEN
                (IF node.st \in {"SKIP", "FAIL"} THEN "" ELSE "block without values is " \o node.st)
         ELSE LET r == XBlockValues(F, rules, c, ch, 1, 0, 0) IN
              IF r.why # "" THEN r.why
              ELSE LET want == IF c.all THEN Agg(r.fails, r.passes)
                               ELSE IF r.passes > 0 THEN "PASS" ELSE IF r.fails > 0 THEN "FAIL" ELSE "SKIP" IN
                   IF node.st = want THEN "" ELSE "block status " \o node.st \o " does not follow from its values (" \o want \o ")"
    [] c.c = "when" ->
         IF node.k # "When" THEN "expected a when record, found " \o node.k
         ELSE XCondBody(F, rules, c.w, c.b, ch, "WhenCond", node.st, "when block")
    [] c.c = "type" ->
         IF node.k # "TypeCheck" THEN "expected a type check record, found " \o node.k
         ELSE
           LET hasCond == Len(c.w) > 0
               condOk == IF ~hasCond THEN ""
                         ELSE IF Len(ch) = 0 \/ ch[1].k # "TypeCond" THEN "type block: missing condition record"
                         ELSE LET cc == Kids(ch[1])
                                  r == XLines(F, rules, c.w, 1, cc, 1, 0, 0) IN
                              IF r.why # "" THEN r.why
                              ELSE IF r.st # ch[1].st THEN "type block: condition status does not follow" ELSE ""
               body == IF hasCond THEN Tail(ch) ELSE ch
           IN IF condOk # "" THEN condOk
              ELSE IF hasCond /\ ch[1].st # "PASS"
                   THEN (IF node.st = "SKIP" /\ Len(body) = 0 THEN "" ELSE "type block evaluated although its condition is not PASS")
              ELSE LET r == XTypeBlocks(F, rules, c, body, 1, 0, 0) IN
                   IF r.why # "" THEN r.why
                   ELSE IF node.st = Agg(r.fails, r.passes) THEN ""
                   ELSE "type check status " \o node.st \o " does not follow from its blocks"
    [] c.c = "pcall" ->
         IF node.k # "Rule" THEN "expected the callee's rule record, found " \o node.k
         ELSE LET pi == FindPR(F, c.n) IN
              IF pi = 0 THEN "call of an unknown rule has a record"
              ELSE XCondBody(F, rules, <<>>, F.prules[pi].b, ch, "RuleCond", node.st, "parameterised rule")
    [] OTHER -> "unknown clause kind"

\* the whole file record
Explain(F, tree, rules) ==
  LET ch == Kids(tree) IN
  IF tree.k # "File" THEN "root record is not the file record"
  ELSE IF Len(ch) # Len(F.rules) THEN "file record does not have one child per rule"
  ELSE IF tree.st # AggNodes(ch) THEN "file status " \o tree.st \o " does not follow from its rules"
  ELSE
    LET bad == {i \in 1 .. Len(ch) :
                  \/ ch[i].k # "Rule" \/ ch[i].n # F.rules[i].n
                  \/ XCondBody(F, rules, F.rules[i].w, F.rules[i].b, Kids(ch[i]), "RuleCond", ch[i].st, "rule") # ""} IN
    IF bad # {}
    THEN LET i == CHOOSE i \in bad : \A j \in bad : i <= j IN
         IF ch[i].k # "Rule" \/ ch[i].n # F.rules[i].n THEN "rule records out of order"
         ELSE "rule " \o F.rules[i].n \o ": " \o
              XCondBody(F, rules, F.rules[i].w, F.rules[i].b, Kids(ch[i]), "RuleCond", ch[i].st, "rule")
    ELSE XFilters(tree, 1)
=============================================================================
