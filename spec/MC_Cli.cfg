SPECIFICATION Spec
CONSTANTS NR = 2
          ND = 2
INVARIANT ExitInTable
INVARIANT BatchIsUnionOfPairs
INVARIANT ErrorsAbort
INVARIANT PathsAgree
INVARIANT FoldAgrees
INVARIANT Emit
CHECK_DEADLOCK FALSE
