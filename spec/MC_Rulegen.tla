------------------------------ MODULE MC_Rulegen ------------------------------
(***************************************************************************)
(* C19 on the specification: over all small templates (up to MaxRes        *)
(* resources over two types, two properties, values 1 / "a" / [1] or       *)
(* absent, Properties missing altogether) the rules file RGAst denotes     *)
(*   SelfValidates  PASS for every rule on the template it was made from,  *)
(*   DetectsChange  FAIL for the rule of the type after any scalar value   *)
(*                  is changed to a value the type does not have,          *)
(* provided every resource of a type carries the same properties and no    *)
(* property has a list among several values.  Outside that proviso the     *)
(* design itself fails the property (Witness*: recorded findings).         *)
(* Every template is printed as a REPLAY line and run through the real     *)
(* rulegen command by the harness (TraceRulegen validates the outcome).    *)
(***************************************************************************)
EXTENDS GuardRulegen, TLC, Json, IOUtils

MaxRes == IF "MAXRES" \in DOMAIN IOEnv THEN atoi(IOEnv.MAXRES) ELSE 2

T1 == <<65, 58, 58, 66>>            \* A::B
T2 == <<67, 100, 58, 58, 69>>       \* Cd::E
PP == <<80>>                        \* P
QQ == <<81>>                        \* Q
Value(c) == CASE c = 1 -> [t |-> "int", v |-> 1]
              [] c = 2 -> [t |-> "str", v |-> <<97>>]
              [] c = 3 -> [t |-> "list", v |-> <<[t |-> "int", v |-> 1]>>]
Fresh == <<[t |-> "int", v |-> 7], [t |-> "str", v |-> <<122>>]>>

Nm == (T1 :> [rule |-> "a_b", var |-> "a_b_resources"]) @@ (T2 :> [rule |-> "cd_e", var |-> "cd_e_resources"])
ASSUME RGName(T1) = <<97, 95, 98>> /\ RGName(T2) = <<99, 100, 95, 101>>
ASSUME RGVarName(T1) = <<97, 95, 98, 95, 114, 101, 115, 111, 117, 114, 99, 101, 115>>

\* one resource: type, value choice for P and Q (0 = absent), np = no Properties key at all
Choice == {c \in [ty : {1, 2}, p : 0 .. 3, q : 0 .. 3, np : BOOLEAN] : c.np => (c.p = 0 /\ c.q = 0)}

Map(ks, vs) == [t |-> "map", k |-> ks, v |-> vs]
Str(cp) == [t |-> "str", v |-> cp]
Resource(c) ==
  LET ks == (IF c.p # 0 THEN <<PP>> ELSE <<>>) \o (IF c.q # 0 THEN <<QQ>> ELSE <<>>)
      vs == (IF c.p # 0 THEN <<Value(c.p)>> ELSE <<>>) \o (IF c.q # 0 THEN <<Value(c.q)>> ELSE <<>>)
      ty == Str(IF c.ty = 1 THEN T1 ELSE T2) IN
  IF c.np THEN Map(<<RG_Type>>, <<ty>>)
  ELSE Map(<<RG_Type, RG_Properties>>, <<ty, Map(ks, vs)>>)
ResId(i) == <<82, 48 + i>>           \* R1, R2, ..
Doc(tpl) == Map(<<RG_Resources>>, <<Map([i \in 1 .. Len(tpl) |-> ResId(i)], [i \in 1 .. Len(tpl) |-> Resource(tpl[i])])>>)

VARIABLE tpl
Init == tpl \in UNION {[1 .. n -> Choice] : n \in 1 .. MaxRes}
Next == UNCHANGED tpl
Spec == Init /\ [][Next]_tpl

Proviso(doc) == RGUniform(doc) /\ RGNoListAmongSeveral(doc)
Den(doc, on) == Denote(RGAst(doc, Nm), on, {})

SelfValidates == LET doc == Doc(tpl) IN Proviso(doc) => RGAllPass(Den(doc, doc))

\* the template with the value of property `which` of resource i replaced
Changed(i, which, v) ==
  LET c == tpl[i]
      r == Resource(c)
      props == RGProps(r)
      j == CHOOSE x \in 1 .. Len(props.k) : props.k[x] = which
      r2 == Map(<<RG_Type, RG_Properties>>, <<RGAt(r, RG_Type), Map(props.k, [props.v EXCEPT ![j] = v])>>) IN
  Map(<<RG_Resources>>, <<Map([x \in 1 .. Len(tpl) |-> ResId(x)],
                              [x \in 1 .. Len(tpl) |-> IF x = i THEN r2 ELSE Resource(tpl[x])])>>)

Sites == {<<i, w>> \in (1 .. Len(tpl)) \X {PP, QQ} :
            /\ ~tpl[i].np
            /\ (IF w = PP THEN tpl[i].p ELSE tpl[i].q) \in {1, 2}}        \* scalar values only
DetectsChange ==
  LET doc == Doc(tpl) IN
  Proviso(doc) =>
    \A s \in Sites : \A f \in 1 .. Len(Fresh) :
      LET T == IF tpl[s[1]].ty = 1 THEN T1 ELSE T2 IN
      ~RGIn(RGVals(doc, T, s[2]), Fresh[f]) =>
        LET d == Den(doc, Changed(s[1], s[2], Fresh[f])) IN
        d.kind = "ok" /\ RGStatusOf(d, Nm[T].rule) = "FAIL"

\* the structure has one rule per type with properties, one clause per property
WellFormed ==
  LET doc == Doc(tpl)
      st == RGStructure(doc, Nm) IN
  /\ Len(st) = Cardinality(RGTypes(doc))
  /\ \A j \in 1 .. Len(st) : Len(st[j].props) >= 1

Emit == PrintT(<<"REPLAY", ToJson(Doc(tpl))>>)

\* findings on the design itself: a property missing on one resource of a type, or a list among
\* several values, make the template fail its own rules
WitnessMissing ==
  LET t == <<[ty |-> 1, p |-> 1, q |-> 1, np |-> FALSE], [ty |-> 1, p |-> 1, q |-> 0, np |-> FALSE]>>
      doc == Doc(t) IN ~RGUniform(doc) /\ ~RGAllPass(Denote(RGAst(doc, Nm), doc, {}))
WitnessList ==
  LET t == <<[ty |-> 1, p |-> 2, q |-> 0, np |-> FALSE], [ty |-> 1, p |-> 3, q |-> 0, np |-> FALSE]>>
      doc == Doc(t) IN RGUniform(doc) /\ ~RGNoListAmongSeveral(doc) /\ ~RGAllPass(Denote(RGAst(doc, Nm), doc, {}))
ASSUME WitnessMissing
ASSUME WitnessList
=============================================================================
