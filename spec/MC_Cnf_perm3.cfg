SPECIFICATION Spec
CONSTANTS MaxLines = 3
          MaxAlts = 3
INVARIANT PermLaw
CHECK_DEADLOCK FALSE
