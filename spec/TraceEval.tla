----------------------------- MODULE TraceEval -----------------------------
(***************************************************************************)
(* Trace validation of recorded evaluations (implementation -> spec).      *)
(* Every line of the ndjson trace is one execution of the real evaluator:  *)
(*   [i, prog, doc, obs]   obs = what the implementation returned          *)
(* The line is consumed by one step of this specification, which evaluates *)
(* Denote(prog, doc) and judges the observation:                           *)
(*   ok        observed = documented semantics                             *)
(*   dev:<d>   observed = semantics with the named deviations enabled      *)
(*   mismatch  neither                                                     *)
(* Acceptance: every line consumed (TraceAccepted) - the verdicts are      *)
(* printed and classified by the check driver against known_findings.json. *)
(***************************************************************************)
EXTENDS TraceCommon

VARIABLE l

Init == l = 1
Next == l <= Len(Rec) /\ Judge(Rec[l]) /\ l' = l + 1
Spec == Init /\ [][Next]_l

TraceAccepted ==
  LET d == TLCGet("stats").diameter IN
  IF d - 1 = Len(Rec) THEN TRUE
  ELSE Print(<<"TRACE-REJECTED at line", d>>, FALSE)
=============================================================================
