----------------------------- MODULE TraceEval -----------------------------
(***************************************************************************)
(* Trace validation of recorded evaluations (implementation -> spec).      *)
(* Every line of the ndjson trace is one execution of the real evaluator:  *)
(*   [i, prog, doc, obs]   obs = what the implementation returned          *)
(* The line is consumed by one step of this specification, which evaluates *)
(* Denote(prog, doc) and judges the observation:                           *)
(*   ok        observed = documented semantics                             *)
(*   dev:<d>   observed = semantics with the named deviations enabled      *)
(*   mismatch  neither                                                     *)
(* Acceptance: every line consumed (TraceAccepted) - the verdicts are      *)
(* printed and classified by the check driver against known_findings.json. *)
(***************************************************************************)
EXTENDS GuardEval, Json, IOUtils

Rec == ndJsonDeserialize(IOEnv.TRACE)

VARIABLE l

AllDevs == {"prefix_not_ignored_on_binary", "filter_after_index_outer_scope",
            "prefix_not_ignored_on_call"}

PanicKinds == {"panic:filter-first", "panic:filter-on-map"}

\* does the observation equal the denotation?
Agrees(obs, d) ==
  CASE obs.kind = "ok" ->
         /\ d.kind = "ok"
         /\ d.file = obs.file
         /\ d.rules = obs.rules
         /\ d.tree = obs.tree
    [] obs.kind = "err" -> d.kind = "err" /\ d.e \notin PanicKinds
    [] obs.kind = "panic" -> d.kind = "err" /\ d.e \in PanicKinds
    [] OTHER -> FALSE

DevOrder == <<{"prefix_not_ignored_on_binary"}, {"filter_after_index_outer_scope"},
              {"prefix_not_ignored_on_call"},
              {"prefix_not_ignored_on_binary", "filter_after_index_outer_scope"},
              {"prefix_not_ignored_on_binary", "prefix_not_ignored_on_call"},
              {"filter_after_index_outer_scope", "prefix_not_ignored_on_call"},
              AllDevs>>

RECURSIVE FirstDev(_, _)
FirstDev(line, j) ==
  IF j > Len(DevOrder) THEN 0
  ELSE IF Agrees(line.obs, Denote(line.prog, line.doc, DevOrder[j])) THEN j
  ELSE FirstDev(line, j + 1)

Brief(d) == IF d.kind = "ok" THEN [kind |-> "ok", file |-> d.file, rules |-> d.rules]
            ELSE [kind |-> "err", e |-> d.e]

Judge(line) ==
  LET d0 == Denote(line.prog, line.doc, {}) IN
  IF Agrees(line.obs, d0)
  THEN PrintT(<<"JUDGE", line.i, "ok", d0.kind>>)
  ELSE LET j == FirstDev(line, 1) IN
       IF j > 0
       THEN PrintT(<<"JUDGE", line.i, "dev", ToJson(DevOrder[j]), ToJson(Brief(d0))>>)
       ELSE PrintT(<<"JUDGE", line.i, "mismatch", ToJson(d0)>>)

Init == l = 1
Next == l <= Len(Rec) /\ Judge(Rec[l]) /\ l' = l + 1
Spec == Init /\ [][Next]_l

TraceAccepted ==
  LET d == TLCGet("stats").diameter IN
  IF d - 1 = Len(Rec) THEN TRUE
  ELSE Print(<<"TRACE-REJECTED at line", d>>, FALSE)
=============================================================================
