---------------------------- MODULE TraceCommon ----------------------------
(***************************************************************************)
(* Judging recorded executions of the evaluator against the specification. *)
(* Shared by the trace specifications (TraceEval, TraceNeg, TracePerm ...). *)
(***************************************************************************)
EXTENDS GuardEval, Json, IOUtils

Rec == ndJsonDeserialize(IOEnv.TRACE)

AllDevs == {"prefix_not_ignored_on_binary", "filter_after_index_outer_scope",
            "prefix_not_ignored_on_call"}

\* error kinds of the specification that stand for an abnormal end of the implementation.  After the
\* fix commits 650f5a6 (substring), 9c67bd0 (filter on a map), b05f18c (function argument without a
\* value) and b475f49 (rule reference cycle) the only one left is a query that starts with a filter,
\* which the parser does not produce.
PanicKinds == {"panic:filter-first"}

TabOf(line) == IF "tab" \in DOMAIN line THEN line.tab ELSE <<>>
Den(line, dev) == DenoteT(line.prog, line.doc, dev, TabOf(line))

\* does the observation equal the denotation?
Agrees(obs, d) ==
  CASE obs.kind = "ok" ->
         /\ d.kind = "ok"
         /\ d.file = obs.file
         /\ d.rules = obs.rules
         /\ Strip(d.tree) = obs.tree
    [] obs.kind = "err" -> d.kind = "err" /\ d.e \notin PanicKinds
    [] obs.kind = "panic" -> d.kind = "err" /\ d.e \in PanicKinds
    [] OTHER -> FALSE

DevOrder == <<{"prefix_not_ignored_on_binary"}, {"filter_after_index_outer_scope"},
              {"prefix_not_ignored_on_call"},
              {"prefix_not_ignored_on_binary", "filter_after_index_outer_scope"},
              {"prefix_not_ignored_on_binary", "prefix_not_ignored_on_call"},
              {"filter_after_index_outer_scope", "prefix_not_ignored_on_call"},
              AllDevs>>

RECURSIVE FirstDev(_, _)
FirstDev(line, j) ==
  IF j > Len(DevOrder) THEN 0
  ELSE IF Agrees(line.obs, Den(line, DevOrder[j])) THEN j
  ELSE FirstDev(line, j + 1)

Brief(d) == IF d.kind = "ok" THEN [kind |-> "ok", file |-> d.file, rules |-> d.rules]
            ELSE [kind |-> "err", e |-> d.e]

\* judge one recorded evaluation against the specification; prints the verdict, always TRUE
Judge(line) ==
  LET d0 == Den(line, {}) IN
  IF d0.kind = "err" /\ d0.e = "unknown"
  THEN PrintT(<<"JUDGE", line.i, "unknown", line.obs.kind>>)   \* outside what the specification computes
  ELSE IF Agrees(line.obs, d0)
  THEN PrintT(<<"JUDGE", line.i, "ok", d0.kind>>)
  ELSE LET j == FirstDev(line, 1) IN
       IF j > 0
       THEN PrintT(<<"JUDGE", line.i, "dev", ToJson(DevOrder[j]), ToJson(Brief(d0))>>)
       ELSE PrintT(<<"JUDGE", line.i, "mismatch", ToJson(d0)>>)

\* a relational verdict (between recorded executions): prints, always TRUE
Relate(i, name, holds) ==
  IF holds THEN PrintT(<<"RELATE", i, "ok", name>>) ELSE PrintT(<<"RELATE", i, "broken", name>>)

\* what two observations must share to count as "the same verdicts"
SameVerdicts(o1, o2) ==
  /\ o1.kind = o2.kind
  /\ (o1.kind = "ok" => (o1.file = o2.file /\ o1.rules = o2.rules))

=============================================================================
