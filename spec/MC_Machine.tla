----------------------------- MODULE MC_Machine -----------------------------
(***************************************************************************)
(* Model checking GuardMachine against an abstract evaluator.              *)
(* Rules R with an acyclic reference relation `deps`; the status of a rule *)
(* is a fixed function of the statuses of the rules it references (`den`   *)
(* is its fixpoint, chosen in Init).  The driver evaluates the file's      *)
(* rules in ANY order (C04: rule order is arbitrary) and, inside a rule,   *)
(* visits its references in ANY order, each through rule_status (cache).   *)
(* Invariants: cache coherence, single assignment, no unbounded recursion, *)
(* result independent of the schedule.                                     *)
(***************************************************************************)
EXTENDS GuardMachine

CONSTANT R
Status == {"PASS", "FAIL", "SKIP"}

VARIABLES den, deps, todo, frames, out
\* frames: stack of [rule, pending references, via cache?]
vars == <<cache, memo, stack, captured, den, deps, todo, frames, out>>

Acyclic(d) == \E ord \in [R -> 1 .. Cardinality(R)] :
                 /\ \A a, b \in R : a # b => ord[a] # ord[b]
                 /\ \A a \in R : \A b \in d[a] : ord[b] < ord[a]

Init ==
  /\ MInit
  /\ den \in [R -> Status]
  /\ deps \in {d \in [R -> SUBSET R] : Acyclic(d)}
  /\ todo = R /\ frames = <<>> /\ out = Empty

\* eval_rules_file picks the next rule (any order) and evaluates it directly (no cache)
StartFileRule ==
  /\ frames = <<>> /\ todo # {}
  /\ \E r \in todo :
       /\ todo' = todo \ {r}
       /\ frames' = <<[rule |-> r, pending |-> deps[r], cached |-> FALSE]>>
  /\ UNCHANGED <<cache, memo, stack, captured, den, deps, out>>

Top == frames[Len(frames)]

\* inside a rule: a reference to rule d, served by the cache ...
RefHit ==
  /\ frames # <<>> /\ Top.pending # {}
  /\ \E d \in Top.pending :
       /\ Has(cache, d)
       /\ RuleStatusHit(d, cache[d])
       /\ frames' = [frames EXCEPT ![Len(frames)].pending = @ \ {d}]
  /\ UNCHANGED <<den, deps, todo, out>>

\* ... or computed now
RefMiss ==
  /\ frames # <<>> /\ Top.pending # {}
  /\ \E d \in Top.pending :
       /\ RuleEvalBegin(d)
       /\ frames' = Append([frames EXCEPT ![Len(frames)].pending = @ \ {d}],
                           [rule |-> d, pending |-> deps[d], cached |-> TRUE])
  /\ UNCHANGED <<den, deps, todo, out>>

\* the rule on top is finished: its status is den[rule]
FinishRule ==
  /\ frames # <<>> /\ Top.pending = {}
  /\ IF Top.cached
     THEN RuleStatusMiss(Top.rule, den[Top.rule]) /\ UNCHANGED out
     ELSE UNCHANGED mvars /\ out' = Put(out, Top.rule, den[Top.rule])
  /\ frames' = SubSeq(frames, 1, Len(frames) - 1)
  /\ UNCHANGED <<den, deps, todo>>

Done == frames = <<>> /\ todo = {} /\ UNCHANGED vars

Next == StartFileRule \/ RefHit \/ RefMiss \/ FinishRule \/ Done
Spec == Init /\ [][Next]_vars

CacheCoherent == \A n \in DOMAIN cache : cache[n] = den[n]
NoReentry == \A i, j \in 1 .. Len(stack) : i # j => stack[i] # stack[j]
ResultIndependentOfSchedule == (frames = <<>> /\ todo = {}) => (DOMAIN out = R /\ \A r \in R : out[r] = den[r])
StackMatchesFrames == Len(stack) = Cardinality({i \in 1 .. Len(frames) : frames[i].cached})
=============================================================================
