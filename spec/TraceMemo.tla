------------------------------ MODULE TraceMemo ------------------------------
(***************************************************************************)
(* C04 / C12 / C15 - trace validation of the evaluator's mutable state.    *)
(*                                                                         *)
(* The trace is the flattened hook-event stream (--cfg guard_verif) of     *)
(* many evaluations:                                                       *)
(*   begin(i)                       a run_checks call starts               *)
(*   root_scope_new                 RootScope created                      *)
(*   rule_eval_begin(name)          rule_status: cache miss, computing     *)
(*   rule_status(name,cached,st)    rule_status: result                    *)
(*   var(scope,sid,name,src,n)      resolve_variable served by             *)
(*                                  literal | memo | function | query      *)
(*   capture(name)                  a key was captured into a variable     *)
(*   end(i, ok, rules)              the call returned; rules = the file    *)
(*                                  record's (name, status) list           *)
(* Each event must be a step the GuardMachine specification allows from    *)
(* the state reached so far (TLC evaluates the preconditions: single       *)
(* assignment of the rule-status cache, a cache hit returns the stored     *)
(* status, a memo read returns what was first computed, no re-entrant      *)
(* rule_status, a fresh RootScope per evaluation, cache coherent with the  *)
(* reported statuses).  The trace is accepted iff every event is consumed. *)
(***************************************************************************)
EXTENDS GuardMachine, Json, IOUtils

Rec == ndJsonDeserialize(IOEnv.TRACE)
VARIABLES l, inRun, rootSeen

St(s) == s     \* statuses are logged as "PASS" / "FAIL" / "SKIP"

RefStatus(rules, name) ==
  LET idx == {i \in 1 .. Len(rules) : rules[i][1] = name /\ rules[i][2] # "SKIP"} IN
  IF idx = {} THEN "SKIP" ELSE rules[CHOOSE i \in idx : \A j \in idx : i <= j][2]

Ev == Rec[l]

Begin ==
  /\ Ev.e = "begin" /\ ~inRun
  /\ inRun' = TRUE /\ rootSeen' = FALSE
  \* a new call / a new process: whatever an evaluation error of the previous one left open is gone
  /\ stack' = <<>> /\ UNCHANGED <<cache, memo, captured>>

\* a command-line loop starts the next (rules file, data file) pair / test case: nothing of
\* the previous pair may be left open, and a fresh RootScope has to come first (C12)
PairBegin ==
  /\ Ev.e = "pair_begin" /\ inRun
  /\ stack = <<>>
  /\ rootSeen' = FALSE
  /\ UNCHANGED <<inRun, cache, memo, stack, captured>>

\* exactly one RootScope per evaluation, created before anything else is evaluated
RootScopeNew ==
  /\ Ev.e = "root_scope_new" /\ inRun /\ ~rootSeen
  /\ NewRoot
  /\ rootSeen' = TRUE /\ UNCHANGED inRun

EvalBegin ==
  /\ Ev.e = "rule_eval_begin" /\ inRun /\ rootSeen
  /\ RuleEvalBegin(Ev.name)
  /\ UNCHANGED <<inRun, rootSeen>>

RuleStatus ==
  /\ Ev.e = "rule_status" /\ inRun /\ rootSeen
  /\ IF Ev.cached THEN RuleStatusHit(Ev.name, Ev.st) ELSE RuleStatusMiss(Ev.name, Ev.st)
  /\ UNCHANGED <<inRun, rootSeen>>

Var ==
  /\ Ev.e = "var" /\ inRun /\ rootSeen
  /\ CASE Ev.src = "literal" -> VarLiteral
       [] Ev.src = "memo" -> VarMemo(Ev.scope, Ev.sid, Ev.name, Ev.n)
       [] OTHER -> VarComputed(Ev.scope, Ev.sid, Ev.name, Ev.n)
  /\ UNCHANGED <<inRun, rootSeen>>

Cap ==
  /\ Ev.e = "capture" /\ inRun /\ rootSeen
  /\ Capture(Ev.name)
  /\ UNCHANGED <<inRun, rootSeen>>

\* the call returned.  On an evaluation error the open computations are abandoned.
End ==
  /\ Ev.e = "end" /\ inRun
  /\ IF Ev.ok /\ Ev.check
     THEN /\ rootSeen
          /\ LET final(name) == RefStatus(Ev.rules, name) IN Finish(final)
     ELSE UNCHANGED mvars
  /\ inRun' = FALSE /\ UNCHANGED rootSeen

Init == l = 1 /\ inRun = FALSE /\ rootSeen = FALSE /\ MInit
Next == /\ l <= Len(Rec)
        /\ (Begin \/ PairBegin \/ RootScopeNew \/ EvalBegin \/ RuleStatus \/ Var \/ Cap \/ End)
        /\ l' = l + 1
Spec == Init /\ [][Next]_<<l, inRun, rootSeen, cache, memo, stack, captured>>

TraceAccepted ==
  LET d == TLCGet("stats").diameter IN
  IF d - 1 = Len(Rec) THEN TRUE
  ELSE Print(<<"TRACE-REJECTED", d, ToJson(Rec[d])>>, FALSE)
=============================================================================
