------------------------------ MODULE MC_Merge ------------------------------
(***************************************************************************)
(* C17: merging input parameters into the data (GuardValues.Merge).        *)
(* All triples of small maps over keys {a, b, c}: the merge of disjoint    *)
(* maps is their union whatever the order, is associative, keeps every key *)
(* visible to `keys` filters (keys and values stay aligned) and a shared   *)
(* key is an error - never a silent choice.                                *)
(***************************************************************************)
EXTENDS GuardValues

Keys == {<<97>>, <<98>>, <<99>>}
I(n) == [t |-> "int", v |-> n]
Maps == {[t |-> "map", k |-> ks, v |-> [i \in 1 .. Len(ks) |-> I(i)]] :
            ks \in {<<>>, <<<<97>>>>, <<<<98>>>>, <<<<99>>>>, <<<<97>>, <<98>>>>, <<<<98>>, <<97>>>>, <<<<99>>, <<97>>>>}}

VARIABLES p1, p2, d
Init == p1 \in Maps /\ p2 \in Maps /\ d \in Maps
Next == UNCHANGED <<p1, p2, d>>
Spec == Init /\ [][Next]_<<p1, p2, d>>

KeySet(m) == {m.k[i] : i \in 1 .. Len(m.k)}
Lookup(m, key) == m.v[KeyIndex(m, key)]
Disjoint == KeySet(p1) \cap KeySet(p2) = {} /\ KeySet(p1) \cap KeySet(d) = {} /\ KeySet(p2) \cap KeySet(d) = {}

M2(a, b) == Merge(a, b)
M3(a, b, c) == LET x == Merge(a, b) IN IF x.err THEN x ELSE Merge(x.v, c)

MergeLaws ==
  LET m == M3(p1, p2, d)
      mr == M3(p2, p1, d) IN
  /\ Disjoint <=> ~m.err
  /\ m.err <=> mr.err
  /\ ~m.err =>
       /\ KeySet(m.v) = KeySet(p1) \cup KeySet(p2) \cup KeySet(d)
       /\ Len(m.v.k) = Len(m.v.v) /\ Len(m.v.k) = Cardinality(KeySet(m.v))
       /\ \A key \in KeySet(p1) : Lookup(m.v, key) = Lookup(p1, key)
       /\ \A key \in KeySet(p2) : Lookup(m.v, key) = Lookup(p2, key)
       /\ \A key \in KeySet(d) : Lookup(m.v, key) = Lookup(d, key)
       \* independent of the order of the parameter files (as a map: same keys, same values)
       /\ CompareEq(m.v, mr.v) = "t"
=============================================================================
