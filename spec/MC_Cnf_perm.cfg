SPECIFICATION Spec
CONSTANTS MaxLines = 4
          MaxAlts = 3
INVARIANT PermLaw
CHECK_DEADLOCK FALSE
