----------------------------- MODULE GuardOps -----------------------------
(***************************************************************************)
(* Unary and binary clause operators over query results.                   *)
(*                                                                         *)
(* Mirrors guard/src/rules/eval.rs:10-405 (unary), eval/operators.rs       *)
(* (CommonOperator, EqOperation, InOperation, operator-level `not`) and    *)
(* eval.rs:765-974 (binary_operation: how comparison results become value  *)
(* checks), eval.rs:434-583,976-1075 (real_binary_operation, the older     *)
(* comparison path still used by `keys` filters).                          *)
(*                                                                         *)
(* A query result is [q |-> "res" | "lit" | "unres", v |-> value, rem]     *)
(*   res   a value found in the data (or produced by a function)           *)
(*   lit   a literal written in the rules file                             *)
(*   unres retrieval stopped at v (traversed_to); rem = index of the first *)
(*         query part that could not be followed                           *)
(* A value check is [st |-> "PASS" | "FAIL", vk |-> kind, from, to]        *)
(***************************************************************************)
EXTENDS GuardValues

Res(v)      == [q |-> "res",   v |-> v, rem |-> 0]
Lit(v)      == [q |-> "lit",   v |-> v, rem |-> 0]
UnRes(v, i) == [q |-> "unres", v |-> v, rem |-> i]
IsUnres(r)  == r.q = "unres"
IsRes(r)    == r.q = "res"
NotUnres(r) == r.q # "unres"

RECURSIVE Concat(_)
Concat(ss) == IF Len(ss) = 0 THEN <<>> ELSE Head(ss) \o Concat(Tail(ss))

TF(b) == IF b THEN "t" ELSE "f"
Flip(s) == IF s = "PASS" THEN "FAIL" ELSE IF s = "FAIL" THEN "PASS" ELSE s

VPass(from)          == [st |-> "PASS", vk |-> "Success", from |-> from, to |-> <<>>, nc |-> FALSE]
VFail(vk, from, to)  == [st |-> "FAIL", vk |-> vk, from |-> from, to |-> to, nc |-> FALSE]
VFailNc(from, to)    == [st |-> "FAIL", vk |-> "Comparison", from |-> from, to |-> to, nc |-> TRUE]

---------------------------------------------------------------------------
(* Unary tests.  DOC(CLAUSES.md): exists, empty, is_* ; an unresolved path *)
(* does not exist and is empty.  IMPL(eval.rs:17-39): `empty` is defined   *)
(* on lists, maps, strings (and booleans: never empty); on any other type  *)
(* it is an evaluation error.                                              *)
UnaryTest(op, r) ==
  CASE op = "exists" -> TF(~IsUnres(r))
    [] op = "empty" ->
         IF IsUnres(r) THEN "t"
         ELSE CASE r.v.t = "list" -> TF(Len(r.v.v) = 0)
                [] r.v.t = "map"  -> TF(Len(r.v.k) = 0)
                [] r.v.t = "str"  -> TF(Len(r.v.v) = 0)
                [] r.v.t = "bool" -> "f"
                [] OTHER -> "err"
    [] op = "is_string" -> TF(~IsUnres(r) /\ r.v.t = "str")
    [] op = "is_list"   -> TF(~IsUnres(r) /\ r.v.t = "list")
    [] op = "is_struct" -> TF(~IsUnres(r) /\ r.v.t = "map")
    [] op = "is_bool"   -> TF(~IsUnres(r) /\ r.v.t = "bool")
    [] op = "is_int"    -> TF(~IsUnres(r) /\ r.v.t = "int")
    [] op = "is_float"  -> TF(~IsUnres(r) /\ r.v.t = "flt")
    [] op = "is_null"   -> TF(~IsUnres(r) /\ r.v.t = "null")

IsUnaryOp(op) == op \in {"exists", "empty", "is_string", "is_list", "is_struct",
                         "is_bool", "is_int", "is_float", "is_null"}

\* apply operator-level not (`on`) and prefix not (`neg`) to a boolean outcome
Polar(b, on, neg) == (b # on) # neg

---------------------------------------------------------------------------
(* Binary comparison.  Intermediate results, before they become checks:    *)
(*  [k |-> "lu", ur]            left side unresolved                       *)
(*  [k |-> "ru", l, ur]         right side unresolved, for left value l    *)
(*  [k |-> "nc", l, r]          not comparable                             *)
(*  [k |-> "ok"|"no", c |-> "value"|"valuein", l, r]                       *)
(*  [k |-> "ok"|"no", c |-> "listin", l, r, diff]                          *)
(*  [k |-> "ok"|"no", c |-> "queryin", ls, rs, diff]                       *)

Vals(rs)   == LET s == SelectSeq(rs, NotUnres) IN [i \in 1 .. Len(s) |-> s[i].v]
Unres(rs)  == SelectSeq(rs, IsUnres)

\* one level of list flattening, operators.rs `flattened`
FlatVals(rs) ==
  LET vs == Vals(rs) IN
  Concat([i \in 1 .. Len(vs) |-> IF IsList(vs[i]) THEN vs[i].v ELSE <<vs[i]>>])

MatchValue(op, l, r) ==
  LET c == Compare(op, l, r) IN
  IF c = "nc" THEN [k |-> "nc", l |-> l, r |-> r]
  ELSE [k |-> IF c = "t" THEN "ok" ELSE "no", c |-> "value", l |-> l, r |-> r]

\* is_literal: exactly one result and it is a literal
IsLiteral(rs) == Len(rs) = 1 /\ rs[1].q = "lit"

LhsUnresItems(lhs) == LET u == Unres(lhs) IN [i \in 1 .. Len(u) |-> [k |-> "lu", ur |-> u[i]]]
RhsUnresItems(rhs, ls) ==
  LET u == Unres(rhs) IN
  Concat([i \in 1 .. Len(u) |-> [j \in 1 .. Len(ls) |-> [k |-> "ru", l |-> ls[j], ur |-> u[i]]]])

\* < <= > >= : IMPL(operators.rs:146-176) both sides flattened one level, every pair compared
CommonCompare(op, lhs, rhs) ==
  LET ls == FlatVals(lhs)
      rs == FlatVals(rhs)
  IN LhsUnresItems(lhs) \o RhsUnresItems(rhs, ls) \o
     Concat([i \in 1 .. Len(ls) |-> [j \in 1 .. Len(rs) |-> MatchValue(op, ls[i], rs[j])]])

Diff(xs, ys) == SelectSeq(xs, LAMBDA e : ~Contains(ys, e))

QueryInItem(diff, ls, rs) ==
  [k |-> IF Len(diff) = 0 THEN "ok" ELSE "no", c |-> "queryin", ls |-> ls, rs |-> rs, diff |-> diff]

\* == : IMPL(operators.rs:453-598)
EqCompare(lhs, rhs) ==
  CASE IsLiteral(lhs) /\ IsLiteral(rhs) -> <<MatchValue("eq", lhs[1].v, rhs[1].v)>>
    [] IsLiteral(lhs) /\ ~IsLiteral(rhs) ->
         LET l == lhs[1].v
             rs == Vals(rhs)
         IN RhsUnresItems(rhs, <<l>>) \o
            (IF IsList(l)
             THEN [i \in 1 .. Len(rs) |-> MatchValue("eq", l, rs[i])]
             ELSE Concat([i \in 1 .. Len(rs) |->
                    IF IsList(rs[i])
                    THEN [j \in 1 .. Len(rs[i].v) |-> MatchValue("eq", l, rs[i].v[j])]
                    ELSE <<MatchValue("eq", l, rs[i])>>]))
    [] ~IsLiteral(lhs) /\ IsLiteral(rhs) ->
         LET r == rhs[1].v
             ls == Vals(lhs)
         IN LhsUnresItems(lhs) \o
            (IF IsList(r)
             THEN [i \in 1 .. Len(ls) |->
                    IF IsScalar(ls[i]) /\ Len(r.v) = 1
                    THEN MatchValue("eq", ls[i], r.v[1])
                    ELSE MatchValue("eq", ls[i], r)]
             ELSE Concat([i \in 1 .. Len(ls) |->
                    IF IsList(ls[i])
                    THEN [j \in 1 .. Len(ls[i].v) |-> MatchValue("eq", ls[i].v[j], r)]
                    ELSE <<MatchValue("eq", ls[i], r)>>]))
    [] OTHER ->
         LET ls == Vals(lhs)
             rs == Vals(rhs)
             diff == IF Len(ls) > Len(rs) THEN Diff(ls, rs) ELSE Diff(rs, ls)
         IN LhsUnresItems(lhs) \o RhsUnresItems(rhs, ls) \o <<QueryInItem(diff, ls, rs)>>

StringIn(l, r) ==
  IF l.t = "str" /\ r.t = "str"
  THEN [k |-> IF IsSubstr(l.v, r.v) THEN "ok" ELSE "no", c |-> "value", l |-> l, r |-> r]
  ELSE [k |-> "nc", l |-> l, r |-> r]

\* contained_in, IMPL(operators.rs:256-321)
ContainedIn(l, r) ==
  IF IsList(l) THEN
    IF IsList(r) THEN
      IF Len(r.v) > 0 /\ IsList(r.v[1])
      THEN IF Contains(r.v, l)
           THEN [k |-> "ok", c |-> "listin", l |-> l, r |-> r, diff |-> <<>>]
           ELSE [k |-> "no", c |-> "listin", l |-> l, r |-> r, diff |-> <<l>>]
      ELSE LET diff == Diff(l.v, r.v) IN
           [k |-> IF Len(diff) = 0 THEN "ok" ELSE "no", c |-> "listin", l |-> l, r |-> r, diff |-> diff]
    ELSE [k |-> "nc", l |-> l, r |-> r]
  ELSE IF IsList(r)
       THEN [k |-> IF Contains(r.v, l) THEN "ok" ELSE "no", c |-> "valuein", l |-> l, r |-> r]
       ELSE MatchValue("eq", l, r)

\* `in` : IMPL(operators.rs:323-451)
InCompare(lhs, rhs) ==
  CASE IsLiteral(lhs) /\ IsLiteral(rhs) ->
         LET s == StringIn(lhs[1].v, rhs[1].v) IN
         <<IF s.k = "ok" THEN s ELSE ContainedIn(lhs[1].v, rhs[1].v)>>
    [] IsLiteral(lhs) /\ ~IsLiteral(rhs) ->
         LET l == lhs[1].v
             rs == Vals(rhs)
         IN RhsUnresItems(rhs, <<l>>) \o
            (IF \E i \in 1 .. Len(rs) : IsList(rs[i])
             THEN [i \in 1 .. Len(rs) |-> ContainedIn(l, rs[i])]
             ELSE IF IsList(l)
                  THEN <<QueryInItem(Diff(l.v, rs), <<l>>, rs)>>
                  ELSE [i \in 1 .. Len(rs) |-> ContainedIn(l, rs[i])])
    [] ~IsLiteral(lhs) /\ IsLiteral(rhs) ->
         LET r == rhs[1].v
             ls == Vals(lhs)
         IN LhsUnresItems(lhs) \o
            Concat([i \in 1 .. Len(ls) |->
              IF r.t = "str"
              THEN IF IsList(ls[i])
                   THEN [j \in 1 .. Len(ls[i].v) |-> StringIn(ls[i].v[j], r)]
                   ELSE <<StringIn(ls[i], r)>>
              ELSE <<ContainedIn(ls[i], r)>>])
    [] OTHER ->
         LET ls == Vals(lhs)
             rs == Vals(rhs)
             diff == SelectSeq(ls, LAMBDA l :
                        ~\E j \in 1 .. Len(rs) : ContainedIn(l, rs[j]).k = "ok")
         IN LhsUnresItems(lhs) \o RhsUnresItems(rhs, ls) \o <<QueryInItem(diff, ls, rs)>>

\* operator-level not: IMPL(operators.rs:648-787).  nl, nr = number of results (not values)
\* on each side.
NotItem(op, it, nl, nr) ==
  IF it.k = "no" THEN
    CASE it.c = "queryin" ->
           LET rd == IF nr >= nl /\ op = "eq" THEN Diff(it.rs, it.diff) ELSE Diff(it.ls, it.diff)
           IN QueryInItem(rd, it.ls, it.rs)
      [] it.c = "listin" ->
           LET rd == Diff(it.l.v, it.diff) IN
           [k |-> IF Len(rd) = 0 THEN "ok" ELSE "no", c |-> "listin", l |-> it.l, r |-> it.r, diff |-> rd]
      [] OTHER -> [it EXCEPT !.k = "ok"]
  ELSE IF it.k = "ok" THEN
    CASE it.c = "queryin" -> [it EXCEPT !.k = "no", !.diff = it.ls]
      [] it.c = "listin"  -> [it EXCEPT !.k = "no", !.diff = it.l.v]
      [] OTHER -> [it EXCEPT !.k = "no"]
  ELSE it

\* (CmpOperator, bool)::compare.  "skip" when either side has no results.
BinaryItems(op, on, lhs, rhs) ==
  LET base == CASE op = "eq" -> EqCompare(lhs, rhs)
                [] op = "in" -> InCompare(lhs, rhs)
                [] OTHER -> CommonCompare(op, lhs, rhs)
  IN IF on THEN [i \in 1 .. Len(base) |-> NotItem(op, base[i], Len(lhs), Len(rhs))] ELSE base

\* binary_operation: items -> value checks, IMPL(eval.rs:765-974)
ItemChecks(it) ==
  CASE it.k = "lu" -> <<VFail("Comparison", it.ur, <<>>)>>
    [] it.k = "ru" -> <<VFail("Comparison", Res(it.l), <<it.ur>>)>>
    [] it.k = "nc" -> <<VFailNc(Res(it.l), <<Res(it.r)>>)>>
    [] it.k = "ok" ->
         IF it.c = "queryin" THEN [i \in 1 .. Len(it.ls) |-> VPass(Res(it.ls[i]))]
         ELSE <<VPass(Res(it.l))>>
    [] it.k = "no" ->
         CASE it.c = "value" -> <<VFail("Comparison", Res(it.l), <<Res(it.r)>>)>>
           [] it.c = "valuein" -> <<VFail("InComparison", Res(it.l), <<Res(it.r)>>)>>
           [] it.c = "listin" -> <<VFail("InComparison", Res(it.l), <<Res(it.r)>>)>>
           [] it.c = "queryin" ->
                [i \in 1 .. Len(it.diff) |->
                   VFail("InComparison", Res(it.diff[i]), [j \in 1 .. Len(it.rs) |-> Res(it.rs[j])])]

\* the value checks of a binary clause; <<>> with skip=TRUE when a side is empty
BinaryChecks(op, on, lhs, rhs) ==
  IF Len(lhs) = 0 \/ Len(rhs) = 0 THEN [skip |-> TRUE, cs |-> <<>>]
  ELSE LET its == BinaryItems(op, on, lhs, rhs) IN
       [skip |-> FALSE, cs |-> Concat([i \in 1 .. Len(its) |-> ItemChecks(its[i])])]

\* all / some fold of value checks, IMPL(eval.rs:1173-1199); DOC(CLAUSES.md "some")
FoldChecks(all, cs) ==
  IF all THEN (IF \E i \in 1 .. Len(cs) : cs[i].st = "FAIL" THEN "FAIL" ELSE "PASS")
  ELSE (IF \E i \in 1 .. Len(cs) : cs[i].st = "PASS" THEN "PASS" ELSE "FAIL")

---------------------------------------------------------------------------
(* real_binary_operation as used by `keys` filters: which keys are         *)
(* selected.  IMPL(eval.rs:434-583,976-1075, eval_context.rs:830-911).     *)
(* key: a string value; rhs: query results; returns TRUE iff selected.     *)

\* in_cmp
InCmp(notIn, l, r) ==   \* "t" / "f" / "nc"
  IF l.t = "str" /\ r.t = "str" THEN TF(IsSubstr(l.v, r.v) # notIn)
  ELSE IF IsList(r) THEN
    LET rs == [i \in 1 .. Len(r.v) |-> CompareEq(l, r.v[i])] IN
    IF \E i \in 1 .. Len(rs) : rs[i] = "nc" THEN "nc"    \* `?` propagates the first error
    ELSE TF((\E i \in 1 .. Len(rs) : rs[i] = "t") # notIn)
  ELSE LET c == CompareEq(l, r) IN IF c = "nc" THEN "nc" ELSE TF((c = "t") # notIn)

KeyCmp(op, on, l, r) ==
  IF op = "in" THEN InCmp(on, l, r)
  ELSE LET c == Compare(op, l, r) IN IF c = "nc" THEN "nc" ELSE TF((c = "t") # on)

\* each_lhs_compare for a scalar left value: outcomes per right result ("t"/"f")
KeyOutcome(op, on, l, r) ==
  IF IsUnres(r) THEN "f"
  ELSE LET c == KeyCmp(op, on, l, r.v) IN
       IF c # "nc" THEN c
       ELSE IF r.q = "lit" /\ IsList(r.v) /\ Len(r.v.v) = 1
            THEN LET c2 == KeyCmp(op, on, l, r.v.v[1]) IN IF c2 = "nc" THEN "f" ELSE c2
            ELSE "f"

KeySelected(op0, on, key, rhs) ==
  LET op == IF op0 = "eq" /\ Len(rhs) > 1 THEN "in" ELSE op0 IN
  IF op = "in"
  THEN \E j \in 1 .. Len(rhs) : KeyOutcome(op, on, key, rhs[j]) = "t"      \* report_at_least_one
  ELSE \E j \in 1 .. Len(rhs) : KeyOutcome(op, on, key, rhs[j]) = "t"      \* report_all_values: one entry per pair

=============================================================================
