SPECIFICATION Spec
INVARIANT CaseOK
CHECK_DEADLOCK FALSE
