SPECIFICATION Spec
INVARIANT GroupOrder
POSTCONDITION TraceAccepted
CHECK_DEADLOCK FALSE
