---------------------------- MODULE GuardReport ----------------------------
(***************************************************************************)
(* The structured report (FileReport) as a function of the evaluation      *)
(* record.  Mirrors eval_context.rs:1965-2435                              *)
(* (report_all_failed_clauses_for_rules, simplified_json_from_root),       *)
(* FileReport::combine (1629-1640) and Status::and (rules/mod.rs:122-133). *)
(*                                                                         *)
(* Report items: [k, n, msg, ck, fp, fv, tp, tv, ch]                       *)
(*   k = "rule"  n = rule name, msg = custom message, ch = items           *)
(*   k = "disj"  ch = items                                                *)
(*   k = "block" ck = "none" (block query retrieved nothing) | "unres"     *)
(*   k = "check" ck = "cmp" | "in" | "unary" | "unres" | "ctx"             *)
(*               fp/fv = path/value the check is about, tp/tv = compared to *)
(***************************************************************************)
EXTENDS Integers, Sequences, FiniteSets, TLC

Item(k, n, msg, ck, fp, fv, tp, tv, ch) ==
  [k |-> k, n |-> n, msg |-> msg, ck |-> ck, fp |-> fp, fv |-> fv, tp |-> tp, tv |-> tv, ch |-> ch]

RECURSIVE ConcatAll(_)
ConcatAll(ss) == IF Len(ss) = 0 THEN <<>> ELSE Head(ss) \o ConcatAll(Tail(ss))

Panic == <<Item("PANIC", "", "", "", <<>>, <<>>, <<>>, <<>>, <<>>)>>

RECURSIVE Failed(_)
\* report_all_failed_clauses_for_rules over a sequence of record nodes
Failed(nodes) ==
  ConcatAll([i \in 1 .. Len(nodes) |->
    LET n == nodes[i] IN
    CASE n.k = "Rule" /\ n.st = "FAIL" ->
           <<Item("rule", n.n, n.msg, "", <<>>, <<>>, <<>>, <<>>, Failed(n.ch))>>
      [] n.k = "Block" /\ n.st = "FAIL" ->
           IF Len(n.ch) = 0
           THEN <<Item("block", "", "", "none", <<>>, <<>>, <<>>, <<>>, <<>>)>>
           ELSE Failed(n.ch)
      [] n.k = "Disj" /\ n.st = "FAIL" ->
           <<Item("disj", "", "", "", <<>>, <<>>, <<>>, <<>>, Failed(n.ch))>>
      [] n.k \in {"Clause", "TypeBlock", "TypeCheck", "When"} /\ n.st = "FAIL" -> Failed(n.ch)
      [] n.k = "Value" /\ n.st = "FAIL" ->
           CASE n.vk \in {"NoValueForEmptyCheck", "DependentRule"} ->
                  <<Item("check", "", n.msg, "ctx", <<>>, <<>>, <<>>, <<>>, <<>>)>>
             [] n.vk = "MissingBlockValue" ->
                  <<Item("block", "", n.msg, "unres", n.fp, n.fv, <<>>, <<>>, <<>>)>>
             [] n.vk = "Unary" ->
                  \* a literal (variable bound to a literal) is reported like a resolved value
                  <<Item("check", "", n.msg, IF n.fq = "unres" THEN "unres" ELSE "unary",
                              n.fp, n.fv, <<>>, <<>>, <<>>)>>
             [] n.vk = "Comparison" ->
                  IF n.fq = "lit" THEN Panic                 \* eval_context.rs:2259
                  ELSE IF n.fq = "unres"
                  THEN <<Item("check", "", n.msg, "unres", n.fp, n.fv, <<>>, <<>>, <<>>)>>
                  ELSE IF Len(n.tq) = 0 THEN <<>>
                  ELSE IF n.tq[1] = "unres"
                  THEN <<Item("check", "", n.msg, "unres", n.tp[1], <<n.tv[1]>>, <<>>, <<>>, <<>>)>>
                  ELSE <<Item("check", "", n.msg, "cmp", n.fp, n.fv, <<n.tp[1]>>, <<n.tv[1]>>, <<>>)>>
             [] n.vk = "InComparison" ->
                  LET keep == {j \in 1 .. Len(n.tq) : n.tq[j] = "res"}
                      idx == SelectSeq([j \in 1 .. Len(n.tq) |-> j], LAMBDA j : j \in keep) IN
                  <<Item("check", "", n.msg, "in", n.fp, n.fv,
                         [j \in 1 .. Len(idx) |-> n.tp[idx[j]]], [j \in 1 .. Len(idx) |-> n.tv[idx[j]]], <<>>)>>
             [] OTHER -> <<>>
      [] OTHER -> <<>>])

\* simplified_json_from_root
Simplify(tree) ==
  LET rules == SelectSeq(tree.ch, LAMBDA n : n.k = "Rule") IN
  [status |-> tree.st,
   compliant |-> {rules[i].n : i \in {j \in 1 .. Len(rules) : rules[j].st = "PASS"}},
   na |-> {rules[i].n : i \in {j \in 1 .. Len(rules) : rules[j].st = "SKIP"}},
   nc |-> Failed(tree.ch)]

\* The "query for block clause did not retrieve any value" item is emitted only when the
\* failed block record has no children at all - Filter records of the block's own query count
\* as children for the implementation but are not part of the record the specification
\* derives.  Reports are therefore compared modulo these items.
RECURSIVE NormItems(_)
NormItems(items) ==
  LET keep == SelectSeq(items, LAMBDA it : ~(it.k = "block" /\ it.ck = "none")) IN
  [i \in 1 .. Len(keep) |-> [keep[i] EXCEPT !.ch = NormItems(keep[i].ch)]]
NormReport(rep) == [rep EXCEPT !.nc = NormItems(rep.nc)]

HasPanic(items) == \E i \in 1 .. Len(items) : items[i].k = "PANIC"
RECURSIVE AnyPanic(_)
AnyPanic(items) == \E i \in 1 .. Len(items) : items[i].k = "PANIC" \/ AnyPanic(items[i].ch)

\* Status::and and FileReport::combine: reports of several rules files against one data file
StatusAnd(a, b) == IF a = "FAIL" THEN "FAIL" ELSE IF a = "PASS" THEN (IF b = "FAIL" THEN "FAIL" ELSE "PASS") ELSE b
Combine(r1, r2) == [status |-> StatusAnd(r1.status, r2.status), compliant |-> r1.compliant \cup r2.compliant,
                    na |-> r1.na \cup r2.na, nc |-> r1.nc \o r2.nc]

---------------------------------------------------------------------------
(* C09: the laws of the property, stated on a report and the list of        *)
(* evaluated (rule, status) pairs - distinct rule names assumed.            *)

NcRules(rep) == {rep.nc[i].n : i \in {j \in 1 .. Len(rep.nc) : rep.nc[j].k = "rule"}}

PartitionLaw(rep, rules) ==
  /\ \A i \in 1 .. Len(rules) :
       LET n == rules[i][1]  st == rules[i][2] IN
       /\ (n \in rep.compliant) <=> (st = "PASS")
       /\ (n \in rep.na) <=> (st = "SKIP")
       /\ (n \in NcRules(rep)) <=> (st = "FAIL")
  /\ rep.compliant \cup rep.na \cup NcRules(rep) = {rules[i][1] : i \in 1 .. Len(rules)}
  \* nothing but the failed rules' own reports at the top level
  /\ \A i \in 1 .. Len(rep.nc) : rep.nc[i].k = "rule"

StatusLaw(rep) ==
  rep.status = (IF Len(rep.nc) > 0 THEN "FAIL" ELSE IF rep.compliant # {} THEN "PASS" ELSE "SKIP")
=============================================================================
