SPECIFICATION Spec
INVARIANT DocOK
INVARIANT ScalarOK
INVARIANT TagOK
CHECK_DEADLOCK FALSE
