SPECIFICATION Spec
INVARIANT DocOK
INVARIANT ScalarOK
INVARIANT TagOK
INVARIANT EscapeOK
CHECK_DEADLOCK FALSE
