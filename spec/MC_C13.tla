------------------------------- MODULE MC_C13 -------------------------------
(***************************************************************************)
(* C13: comparison operators form a coherent algebra over values.          *)
(*                                                                         *)
(* Universe U of ~40 values (boundary ints, finite floats incl. 0.0,       *)
(* 1e308, the smallest positive and negatives, strings incl. empty /       *)
(* unicode / prefix pairs / keyword-looking, bools, null, small lists and  *)
(* maps).  States: document {a: x} (x in U) against the clause             *)
(* `a <op> <literal y>` (y in the literal-expressible part of U, ranges,   *)
(* regexes, lists) for all six operators, both quantifiers irrelevant      *)
(* (single value), both polarities; and documents {a: x, b: y} against     *)
(* `a == b` / `a in b` (both sides loaded from the data).                  *)
(* The laws of the property are invariants of the specification; every     *)
(* state is replayed against the implementation.                           *)
(***************************************************************************)
EXTENDS MC_Clause

ka == <<97>>  kb == <<98>>
sa == <<97>>  sab == <<97, 98>>  sb == <<98>>
se == <<233>>           \* e-acute
sj == <<26085>>         \* CJK
sastral == <<128512>>   \* astral plane
s1 == <<49>>  strue == <<116, 114, 117, 101>>  snull == <<110, 117, 108, 108>>
\* digit strings whose numeric and lexicographic orders differ: "9", "10"
s9 == <<57>>
s10 == <<49, 48>>

IMin == -1000000002   IMin1 == -1000000001   IMax1 == 1000000001   IMax == 1000000002
FHuge == 1000000001   FTinyV == 1000000003

\* values that a rule literal can express
ULit == <<I(IMin1), I(-1), I(0), I(1), I(2), I(IMax1), I(IMax),
          F(0), F(500), F(1500), F(FHuge), F(FTinyV),
          S(<<>>), S(sa), S(sab), S(sb), S(se), S(sj), S(sastral), S(s1), S(s9), S(s10), S(strue), S(snull),
          B(TRUE), B(FALSE), N,
          L(<<>>), L(<<I(1)>>), L(<<I(1), I(2)>>), L(<<I(2), I(1)>>), L(<<S(sa)>>),
          M(<<>>, <<>>), M(<<ka>>, <<I(1)>>), M(<<ka, kb>>, <<I(1), I(2)>>),
          M(<<kb, ka>>, <<I(2), I(1)>>), M(<<ka>>, <<M(<<kb>>, <<I(1)>>)>>)>>
\* values only a document can hold (the Guard grammar has no negative float / i64::MIN literal)
UDocOnly == <<I(IMin), F(-500), F(0 - FHuge)>>
U == ULit \o UDocOnly

NL == Len(ULit)
NU == Len(U)

Ranges == <<RI(0, 2, 3), RI(0, 2, 0), RI(0, 2, 1), RI(0, 2, 2), RI(1, 1, 3), RI(1, 1, 0),
            RI(IMin1, IMax, 3), RI(IMin1, IMax, 0),
            RF(500, 1500, 3), RF(500, 1500, 0), RF(500, 1500, 1), RF(500, 1500, 2),
            RF(0, FHuge, 0)>>
Regexes == <<RE(FALSE, FALSE, sa), RE(TRUE, FALSE, sa), RE(FALSE, TRUE, sb), RE(TRUE, TRUE, sab),
             RE(FALSE, FALSE, se), RE(TRUE, TRUE, <<>>), RE(FALSE, FALSE, sastral),
             \* with the wildcard `.` (code point 0): /^a.$/, /./, /b./
             RE(TRUE, TRUE, <<97, 0>>), RE(FALSE, FALSE, <<0>>), RE(FALSE, FALSE, <<98, 0>>)>>
InLists == <<L(<<I(1), I(2)>>), L(<<S(sa), S(sb)>>), L(<<I(1), S(sa)>>), L(<<N, B(TRUE)>>),
             L(<<F(500), F(1500)>>), L(<<L(<<I(1)>>), L(<<I(1), I(2)>>)>>),
             L(<<M(<<ka>>, <<I(1)>>)>>)>>

C13Rhs == [i \in 1 .. NL |-> Val(ULit[i])] \o
          [i \in 1 .. Len(Ranges) |-> Val(Ranges[i])] \o
          [i \in 1 .. Len(Regexes) |-> Val(Regexes[i])] \o
          [i \in 1 .. Len(InLists) |-> Val(InLists[i])] \o
          <<Qr(<<K(kb)>>)>>
RQ == Len(C13Rhs)                                     \* index of the query right-hand side `b`
RangeIdx(i) == NL + i
RegexIdx(i) == NL + Len(Ranges) + i
InIdx(i) == NL + Len(Ranges) + Len(Regexes) + i

Ops == <<"eq", "in", "lt", "le", "gt", "ge">>
C13OpRhs == Concat([i \in 1 .. Len(Ops) |-> [j \in 1 .. Len(C13Rhs) |-> <<Ops[i], j>>]])
OpIdx(op, j) == CHOOSE o \in 1 .. Len(C13OpRhs) : C13OpRhs[o] = <<op, j>>

\* documents: {a: x} for x in U, then {a: x, b: y} for x, y in U
C13Docs == [i \in 1 .. NU |-> M(<<ka>>, <<U[i]>>)] \o
           Concat([i \in 1 .. NU |-> [j \in 1 .. NU |-> M(<<ka, kb>>, <<U[i], U[j]>>)]])
PairDoc(i, j) == NU + (i - 1) * NU + j
IsPair(d) == d > NU
PairX(d) == ((d - NU - 1) \div NU) + 1
PairY(d) == ((d - NU - 1) % NU) + 1

C13Queries == << <<K(ka)>> >>
C13Quantifiers == {TRUE}
\* single documents meet every literal right-hand side; pair documents meet `== b` and `in b`
C13Allowed(d, o) ==
  IF IsPair(d) THEN C13OpRhs[o][2] = RQ /\ C13OpRhs[o][1] \in {"eq", "in"}
  ELSE C13OpRhs[o][2] # RQ

---------------------------------------------------------------------------
\* verdict of `a <op> rhs[j]` on document d, polarity (neg, on), by the specification
V(d, op, j, neg) ==
  LET dd == Denote(Prog(Gac(<<K(ka)>>, TRUE, neg, op, FALSE, <<C13Rhs[j]>>)), C13Docs[d], {}) IN
  IF dd.kind = "err" THEN "ERR" ELSE dd.rules[1][2]

Pass(d, op, j) == V(d, op, j, FALSE) = "PASS"

OrderedType(t) == t \in {"int", "flt", "str"}
OrdLower(x, y) ==   \* the numeric / lexicographic order, stated independently of the kernel
  CASE x.t = "int" -> x.v < y.v
    [] x.t = "flt" -> FRank(x.v) < FRank(y.v)
    [] x.t = "str" ->
         \E k \in 1 .. (Len(y.v)) :
            /\ \A m \in 1 .. (k - 1) : m <= Len(x.v) /\ x.v[m] = y.v[m]
            /\ (k > Len(x.v) \/ (k <= Len(x.v) /\ x.v[k] < y.v[k]))

\* A law that fails is reported (LAW line) and classified by the check driver against the
\* known findings; the operator itself is always TRUE so that TLC explores the whole matrix.
Law(name, info, holds) == IF holds THEN TRUE ELSE PrintT(<<"LAW", name, ToJson(info)>>)

Shape(v) == IF v.t = "list" THEN "list" ELSE IF v.t = "map" THEN "map" ELSE "scalar"

\* laws evaluated once per (x, y) pair: at the state whose operator is `eq`
PairLaws ==
  (phase = "case" /\ ~IsPair(di) /\ OpRhs[oi][1] = "eq" /\ OpRhs[oi][2] <= NL) =>
  LET x == U[di]
      j == OpRhs[oi][2]
      y == ULit[j]
      lt == Pass(di, "lt", j)  le == Pass(di, "le", j)
      gt == Pass(di, "gt", j)  ge == Pass(di, "ge", j)
      eq == Pass(di, "eq", j)
      info == [x |-> NoPaths(x), y |-> NoPaths(y), d |-> di, j |-> j]
  IN
  IF x.t = y.t /\ OrderedType(x.t) THEN
     \* exactly one of <, ==, > ; <= iff < or == ; >= iff > or == ; the order is the
     \* numeric / lexicographic one
     /\ Law("trichotomy", info, (lt /\ ~eq /\ ~gt) \/ (~lt /\ eq /\ ~gt) \/ (~lt /\ ~eq /\ gt))
     /\ Law("le-iff-lt-or-eq", info, le <=> (lt \/ eq))
     /\ Law("ge-iff-gt-or-eq", info, ge <=> (gt \/ eq))
     /\ Law("order-is-numeric-or-lexicographic", info, (lt <=> OrdLower(x, y)) /\ (gt <=> OrdLower(y, x)))
     /\ Law("eq-is-identity-on-scalars", info, eq <=> (x.v = y.v))
     \* negation: not X > v holds exactly when X <= v does
     /\ Law("not-gt-is-le", info, V(di, "gt", j, TRUE) = V(di, "le", j, FALSE))
     /\ Law("not-lt-is-ge", info, V(di, "lt", j, TRUE) = V(di, "ge", j, FALSE))
  ELSE IF x.t # y.t \/ x.t \in {"bool", "list", "map"} THEN
     \* values of different or unordered types never satisfy <, <=, >, >= in either polarity
     /\ Law("cross-type:" \o Shape(x) \o "-vs-" \o Shape(y) \o ":order", info,
            /\ ~lt /\ ~le /\ ~gt /\ ~ge
            /\ \A op \in {"lt", "le", "gt", "ge"} : V(di, op, j, TRUE) = "FAIL")
     \* ... nor == / != when the types differ
     /\ Law("cross-type:" \o Shape(x) \o "-vs-" \o Shape(y) \o ":eq", info,
            (x.t # y.t) => (~eq /\ V(di, "eq", j, TRUE) = "FAIL"))
  ELSE TRUE

\* == is reflexive on every value; maps compare irrespective of key order, lists in order
EqLaws ==
  (phase = "case" /\ ~IsPair(di) /\ OpRhs[oi][1] = "eq" /\ OpRhs[oi][2] <= NL) =>
  LET x == U[di]
      j == OpRhs[oi][2]
      y == ULit[j]
  IN
  /\ Law("eq-reflexive", [x |-> NoPaths(x), y |-> NoPaths(y)], (NoPaths(x) = NoPaths(y)) => Pass(di, "eq", j))
  \* symmetric: literal side and data side exchanged (both are in ULit)
  /\ Law("eq-symmetric:" \o Shape(x) \o "-vs-" \o Shape(y), [x |-> NoPaths(x), y |-> NoPaths(y)],
         (di <= NL) => (Pass(di, "eq", j) <=> Pass(j, "eq", di)))
  /\ Law("eq-maps-by-key-set", [x |-> NoPaths(x), y |-> NoPaths(y)],
       (x.t = "map" /\ y.t = "map") =>
       (Pass(di, "eq", j) <=>
          /\ Len(x.k) = Len(y.k)
          /\ \A a \in 1 .. Len(x.k) : \E b \in 1 .. Len(y.k) :
                x.k[a] = y.k[b] /\ NoPaths(x.v[a]) = NoPaths(y.v[b])))
  /\ Law("eq-lists-in-order", [x |-> NoPaths(x), y |-> NoPaths(y)],
       (x.t = "list" /\ y.t = "list") => (Pass(di, "eq", j) <=> NoPaths(x) = NoPaths(y)))

\* both sides loaded from the data: a == b is symmetric and reflexive
LoadedEqLaws ==
  (phase = "case" /\ IsPair(di) /\ OpRhs[oi][1] = "eq") =>
  LET i == PairX(di)
      j == PairY(di)
  IN /\ Law("loaded-eq-reflexive", [x |-> NoPaths(U[i])], (i = j) => Pass(di, "eq", RQ))
     /\ Law("loaded-eq-symmetric", [x |-> NoPaths(U[i]), y |-> NoPaths(U[j])],
            Pass(di, "eq", RQ) <=> Pass(PairDoc(j, i), "eq", RQ))

\* X in r[a,b] / r(a,b) / r[a,b) / r(a,b] iff the corresponding bound comparisons hold
RangeLaws ==
  (phase = "case" /\ ~IsPair(di) /\ OpRhs[oi][1] = "in"
   /\ OpRhs[oi][2] > NL /\ OpRhs[oi][2] <= NL + Len(Ranges)) =>
  LET x == U[di]
      r == Ranges[OpRhs[oi][2] - NL]
      num == IF r.t = "rint" THEN "int" ELSE "flt"
      rank(v) == IF num = "int" THEN v ELSE FRank(v)
      lowOk == IF r.inc % 2 = 1 THEN rank(r.lo) <= rank(x.v) ELSE rank(r.lo) < rank(x.v)
      highOk == IF r.inc \div 2 = 1 THEN rank(x.v) <= rank(r.hi) ELSE rank(x.v) < rank(r.hi)
  IN IF x.t = num
     THEN Law("range-iff-bounds", [x |-> NoPaths(x), r |-> r], Pass(di, "in", OpRhs[oi][2]) <=> (lowOk /\ highOk))
     ELSE Law("range-other-type:" \o Shape(x), [x |-> NoPaths(x), r |-> r], ~Pass(di, "in", OpRhs[oi][2]))

\* X == /re/ iff the regular expression matches somewhere in the string
RegexLaws ==
  (phase = "case" /\ ~IsPair(di) /\ OpRhs[oi][1] = "eq"
   /\ OpRhs[oi][2] > NL + Len(Ranges) /\ OpRhs[oi][2] <= NL + Len(Ranges) + Len(Regexes)) =>
  LET x == U[di]
      re == Regexes[OpRhs[oi][2] - NL - Len(Ranges)]
  IN Law("regex-matches-somewhere:" \o Shape(x), [x |-> NoPaths(x), re |-> re],
     Pass(di, "eq", OpRhs[oi][2]) <=>
       /\ x.t = "str"
       /\ \E s \in 0 .. Len(x.v) : \E e \in s .. Len(x.v) :
            \* the segment matches the pattern character by character (0 = the wildcard `.`)
            /\ e - s = Len(re.v)
            /\ \A k \in 1 .. Len(re.v) : re.v[k] = 0 \/ re.v[k] = x.v[s + k]
            /\ (re.s => s = 0)
            /\ (re.e => e = Len(x.v)))

\* X in [v1..vn] iff X equals some vi
InListLaws ==
  (phase = "case" /\ ~IsPair(di) /\ OpRhs[oi][1] = "in"
   /\ OpRhs[oi][2] > NL + Len(Ranges) + Len(Regexes) /\ OpRhs[oi][2] < RQ) =>
  LET x == U[di]
      lst == InLists[OpRhs[oi][2] - NL - Len(Ranges) - Len(Regexes)]
  IN Law("in-list-iff-equals-some-element", [x |-> NoPaths(x), l |-> lst],
       (~IsList(x)) =>
       (Pass(di, "in", OpRhs[oi][2]) <=> \E k \in 1 .. Len(lst.v) : CompareEq(x, lst.v[k]) = "t"))

Emit == phase = "case" => EmitReplay(Polarities)
=============================================================================
