SPECIFICATION Spec
INVARIANT Emit
INVARIANT Laws
INVARIANT RoundTrip
INVARIANT ParseErrors
CHECK_DEADLOCK FALSE
