--------------------------- MODULE GuardValues ---------------------------
(***************************************************************************)
(* Value universe of cloudformation-guard and its comparison kernel.       *)
(*                                                                         *)
(* Mirrors guard/src/rules/path_value.rs (compare_values, compare_eq,      *)
(* compare_lt/le/gt/ge, PartialEq for PathAwareValue, merge) and           *)
(* guard/src/rules/values.rs (is_within).                                  *)
(*                                                                         *)
(* Encoding (spec/SCHEMA.md).  A value is a record with a tag `t`:         *)
(*   [t |-> "null"]            [t |-> "bool", v |-> BOOLEAN]               *)
(*   [t |-> "int",  v |-> Int]  order-embedded: sentinels +-(10^9+1),      *)
(*                               +-(10^9+2) stand for i64 extremes         *)
(*   [t |-> "flt",  v |-> Int]  milli-units; sentinels +-(10^9+1) = +-1e308*)
(*                               10^9+3 = 5e-324 (smallest positive)       *)
(*   [t |-> "str",  v |-> Seq(Nat)]   code points                          *)
(*   [t |-> "chr",  v |-> Nat]                                             *)
(*   [t |-> "list", v |-> Seq(Value)]                                      *)
(*   [t |-> "map",  k |-> Seq(Seq(Nat)), v |-> Seq(Value)]  document order *)
(*   [t |-> "re",   s |-> BOOLEAN, e |-> BOOLEAN, v |-> Seq(Nat)]          *)
(*        the regex /^?lit$?/ : "contains lit", optionally anchored        *)
(*   [t |-> "rint", lo, hi, inc]  [t |-> "rflt", lo, hi, inc]              *)
(*        inc bit 0 = lower inclusive, bit 1 = upper inclusive             *)
(* Every value additionally carries p |-> path (sequence of segments, each *)
(* a code-point sequence) once it has been through WithPaths; comparisons  *)
(* never look at p.                                                        *)
(***************************************************************************)
EXTENDS Integers, Sequences, FiniteSets, TLC

IsList(v)   == v.t = "list"
IsMap(v)    == v.t = "map"
IsScalar(v) == ~IsList(v) /\ ~IsMap(v)     \* path_value.rs is_scalar
IsNull(v)   == v.t = "null"

---------------------------------------------------------------------------
(* sequences of code points: lexicographic order, substring               *)

RECURSIVE SeqCmpAt(_, _, _)
SeqCmpAt(a, b, i) ==
  IF i > Len(a) THEN (IF i > Len(b) THEN 0 ELSE -1)
  ELSE IF i > Len(b) THEN 1
  ELSE IF a[i] < b[i] THEN -1
  ELSE IF a[i] > b[i] THEN 1
  ELSE SeqCmpAt(a, b, i + 1)

SeqCmp(a, b) == SeqCmpAt(a, b, 1)

IsPrefixOf(n, h) == Len(n) <= Len(h) /\ SubSeq(h, 1, Len(n)) = n
IsSuffixOf(n, h) == Len(n) <= Len(h) /\ SubSeq(h, Len(h) - Len(n) + 1, Len(h)) = n
IsSubstr(n, h)   == \E i \in 0 .. (Len(h) - Len(n)) : SubSeq(h, i + 1, i + Len(n)) = n

\* DOC(CLAUSES.md, "regex"): X == /re/ holds iff the regex matches somewhere in the string
\* The regex fragment: an optional ^, a sequence of literal characters and wildcards, an optional $.
\* The code point 0 in re.v stands for `.`: any one character.
WILD == 0
MatchAt(lit, s, off) == \A k \in 1 .. Len(lit) : lit[k] = WILD \/ lit[k] = s[off + k]
RegexMatch(re, s) ==
  LET n == Len(re.v)
      m == Len(s) IN
  IF n > m THEN FALSE
  ELSE IF re.s /\ re.e THEN n = m /\ MatchAt(re.v, s, 0)
  ELSE IF re.s THEN MatchAt(re.v, s, 0)
  ELSE IF re.e THEN MatchAt(re.v, s, m - n)
  ELSE \E off \in 0 .. (m - n) : MatchAt(re.v, s, off)

---------------------------------------------------------------------------
(* numbers                                                                 *)

FTiny == 1000000003
\* order rank of a float in milli-units (5e-324 sits strictly between 0 and 0.001)
FRank(m) == IF m = FTiny THEN 1 ELSE 2 * m

Sign(n) == IF n < 0 THEN -1 ELSE IF n > 0 THEN 1 ELSE 0
CmpInt(a, b) == IF a < b THEN -1 ELSE IF a > b THEN 1 ELSE 0

---------------------------------------------------------------------------
(* compare_values: the total-order kernel with type gating                 *)
(* IMPL(path_value.rs:1047-1068).  Result "lt", "eq", "gt" or "nc".        *)

Ord(n) == IF n < 0 THEN "lt" ELSE IF n > 0 THEN "gt" ELSE "eq"

CompareValues(a, b) ==
  CASE a.t = "null" /\ b.t = "null" -> "eq"
    [] a.t = "int"  /\ b.t = "int"  -> Ord(CmpInt(a.v, b.v))
    [] a.t = "str"  /\ b.t = "str"  -> Ord(SeqCmp(a.v, b.v))
    [] a.t = "flt"  /\ b.t = "flt"  -> Ord(CmpInt(FRank(a.v), FRank(b.v)))
    [] a.t = "chr"  /\ b.t = "chr"  -> Ord(CmpInt(a.v, b.v))
    [] OTHER -> "nc"

\* values.rs is_within
WithinInt(x, r) ==
  /\ IF (r.inc % 2) = 1 THEN r.lo <= x ELSE r.lo < x
  /\ IF (r.inc \div 2) = 1 THEN r.hi >= x ELSE r.hi > x

WithinFlt(x, r) ==
  /\ IF (r.inc % 2) = 1 THEN FRank(r.lo) <= FRank(x) ELSE FRank(r.lo) < FRank(x)
  /\ IF (r.inc \div 2) = 1 THEN FRank(r.hi) >= FRank(x) ELSE FRank(r.hi) > FRank(x)

(* compare_eq: IMPL(path_value.rs:1071-1152).  Result "t", "f" or "nc".    *)
(* Maps: same size, every key of the first present in the second with      *)
(* equal value - key order irrelevant.  Lists: same length, pairwise, in   *)
(* order.  The first non-"t" element result decides (an "nc" inside a      *)
(* collection makes the whole comparison not comparable unless an earlier  *)
(* pair already differed).                                                  *)

KeyIndex(m, key) ==
  IF \E i \in 1 .. Len(m.k) : m.k[i] = key
  THEN CHOOSE i \in 1 .. Len(m.k) : m.k[i] = key
  ELSE 0

RECURSIVE CompareEq(_, _), EqListAt(_, _, _), EqMapAt(_, _, _)

EqListAt(a, b, i) ==
  IF i > Len(a.v) THEN "t"
  ELSE LET r == CompareEq(a.v[i], b.v[i]) IN
       IF r = "t" THEN EqListAt(a, b, i + 1) ELSE r

EqMapAt(a, b, i) ==
  IF i > Len(a.k) THEN "t"
  ELSE LET j == KeyIndex(b, a.k[i]) IN
       IF j = 0 THEN "f"
       ELSE LET r == CompareEq(a.v[i], b.v[j]) IN
            IF r = "t" THEN EqMapAt(a, b, i + 1) ELSE r

CompareEq(a, b) ==
  CASE a.t = "str" /\ b.t = "re"  -> IF RegexMatch(b, a.v) THEN "t" ELSE "f"
    [] a.t = "re"  /\ b.t = "str" -> IF RegexMatch(a, b.v) THEN "t" ELSE "f"
    [] a.t = "str" /\ b.t = "str" -> IF a.v = b.v THEN "t" ELSE "f"
    [] a.t = "map" /\ b.t = "map" ->
         IF Len(a.k) = Len(b.k) THEN EqMapAt(a, b, 1) ELSE "f"
    [] a.t = "list" /\ b.t = "list" ->
         IF Len(a.v) = Len(b.v) THEN EqListAt(a, b, 1) ELSE "f"
    [] a.t = "bool" /\ b.t = "bool" -> IF a.v = b.v THEN "t" ELSE "f"
    [] a.t = "re" /\ b.t = "re" ->
         IF a.s = b.s /\ a.e = b.e /\ a.v = b.v THEN "t" ELSE "f"
    [] a.t = "int" /\ b.t = "rint" -> IF WithinInt(a.v, b) THEN "t" ELSE "f"
    [] a.t = "flt" /\ b.t = "rflt" -> IF WithinFlt(a.v, b) THEN "t" ELSE "f"
    [] OTHER -> LET o == CompareValues(a, b) IN
                IF o = "nc" THEN "nc" ELSE IF o = "eq" THEN "t" ELSE "f"

\* the four ordering comparators, IMPL(path_value.rs:1154-1192)
CompareOrd(op, a, b) ==
  LET o == CompareValues(a, b) IN
  IF o = "nc" THEN "nc"
  ELSE IF CASE op = "lt" -> o = "lt"
            [] op = "le" -> o \in {"lt", "eq"}
            [] op = "gt" -> o = "gt"
            [] op = "ge" -> o \in {"gt", "eq"}
       THEN "t" ELSE "f"

\* Compare(op, a, b) for op in eq, lt, le, gt, ge
Compare(op, a, b) == IF op = "eq" THEN CompareEq(a, b) ELSE CompareOrd(op, a, b)

(* PartialEq for PathAwareValue (used by Vec::contains in the `in` and     *)
(* query-to-query paths).  IMPL(path_value.rs:245-291).  Boolean.          *)
RECURSIVE PEq(_, _)
PEq(a, b) ==
  CASE a.t = "map" /\ b.t = "map" ->
         /\ Len(a.k) = Len(b.k)
         /\ \A i \in 1 .. Len(a.k) :
              LET j == KeyIndex(b, a.k[i]) IN j # 0 /\ PEq(a.v[i], b.v[j])
    [] a.t = "list" /\ b.t = "list" ->
         /\ Len(a.v) = Len(b.v)
         /\ \A i \in 1 .. Len(a.v) : PEq(a.v[i], b.v[i])
    [] a.t = "bool" /\ b.t = "bool" -> a.v = b.v
    [] a.t = "str" /\ b.t = "re"  -> RegexMatch(b, a.v)
    [] a.t = "re"  /\ b.t = "str" -> RegexMatch(a, b.v)
    [] a.t = "re"  /\ b.t = "re"  -> a.s = b.s /\ a.e = b.e /\ a.v = b.v
    [] a.t = "int" /\ b.t = "rint" -> WithinInt(a.v, b)
    [] a.t = "flt" /\ b.t = "rflt" -> WithinFlt(a.v, b)
    [] OTHER -> CompareValues(a, b) = "eq"

Contains(seq, x) == \E i \in 1 .. Len(seq) : PEq(seq[i], x)

---------------------------------------------------------------------------
(* paths                                                                   *)

RECURSIVE Digits(_)
Digits(n) == IF n < 10 THEN <<48 + n>> ELSE Digits(n \div 10) \o <<48 + (n % 10)>>

\* attach paths: IMPL(path_value.rs:359-405) extend_str / extend_usize.  `o` records where the
\* value comes from: "d" the data document, "l" the rules file (literals).  Neither p nor o is
\* ever looked at by a comparison.
RECURSIVE WithPathsO(_, _, _)
WithPathsO(v, p, o) ==
  CASE v.t = "list" ->
         [t |-> "list", p |-> p, o |-> o,
          v |-> [i \in 1 .. Len(v.v) |-> WithPathsO(v.v[i], Append(p, Digits(i - 1)), o)]]
    [] v.t = "map" ->
         [t |-> "map", p |-> p, o |-> o, k |-> v.k,
          v |-> [i \in 1 .. Len(v.v) |-> WithPathsO(v.v[i], Append(p, v.k[i]), o)]]
    [] OTHER -> [x \in (DOMAIN v) \cup {"p", "o"} |-> IF x = "p" THEN p ELSE IF x = "o" THEN o ELSE v[x]]

\* a literal of the rules file
WithPaths(v, p) == WithPathsO(v, p, "l")
\* the data document
DocPaths(doc) == WithPathsO(doc, <<>>, "d")

\* strip paths (for printing / comparing values structurally)
RECURSIVE NoPaths(_)
NoPaths(v) ==
  CASE v.t = "list" -> [t |-> "list", v |-> [i \in 1 .. Len(v.v) |-> NoPaths(v.v[i])]]
    [] v.t = "map" -> [t |-> "map", k |-> v.k, v |-> [i \in 1 .. Len(v.v) |-> NoPaths(v.v[i])]]
    [] OTHER -> [x \in (DOMAIN v) \ {"p", "o"} |-> v[x]]

\* Resolve(doc, path): the sub-value a slash pointer denotes, or "none"
RECURSIVE Resolve(_, _, _)
Resolve(v, p, i) ==
  IF i > Len(p) THEN v
  ELSE IF v.t = "map" THEN
         LET j == KeyIndex(v, p[i]) IN IF j = 0 THEN [t |-> "none"] ELSE Resolve(v.v[j], p, i + 1)
  ELSE IF v.t = "list" THEN
         LET cands == {j \in 1 .. Len(v.v) : Digits(j - 1) = p[i]} IN
         IF cands = {} THEN [t |-> "none"] ELSE Resolve(v.v[CHOOSE j \in cands : TRUE], p, i + 1)
  ELSE [t |-> "none"]

---------------------------------------------------------------------------
(* merge: IMPL(path_value.rs:889-919); DOC(README "input parameters")      *)
(* result: [err |-> FALSE, v |-> merged] or [err |-> TRUE, e |-> kind]     *)

Merge(a, b) ==
  IF a.t = "list" /\ b.t = "list" THEN [err |-> FALSE, v |-> [a EXCEPT !.v = a.v \o b.v]]
  ELSE IF a.t = "map" /\ b.t = "map" THEN
    IF \E i \in 1 .. Len(b.k) : KeyIndex(a, b.k[i]) # 0
    THEN [err |-> TRUE, e |-> "duplicate-key"]
    ELSE [err |-> FALSE, v |-> [a EXCEPT !.k = a.k \o b.k, !.v = a.v \o b.v]]
  ELSE [err |-> TRUE, e |-> "incompatible-merge"]

=============================================================================
