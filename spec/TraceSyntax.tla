----------------------------- MODULE TraceSyntax -----------------------------
(***************************************************************************)
(* C14 - trace validation of the concrete-syntax relations.                *)
(*                                                                         *)
(* The meaning of a rules file (GuardEval.Denote) is a function of its AST *)
(* alone.  MC_Syntax enumerates the style vectors - which documented       *)
(* synonym is written per token class and how the text is laid out - and   *)
(* the harness writes one generated AST under the canonical style (line B) *)
(* and under a selection of those vectors (every single-class deviation,   *)
(* sampled combinations, per-occurrence mixtures).  Every text goes through *)
(* `parse-tree --print-json` and through run_checks.  Lines:               *)
(*   B   canonical text: judged against Denote(prog, doc)                  *)
(*   SY  another spelling / layout of the same AST (style.tq = FALSE,      *)
(*       style.bare = FALSE)                                               *)
(*   TQ  every type block written as Resources.*[ Type == 'X' ] { .. }:    *)
(*       `prog` is the rewritten AST, judged against its own denotation    *)
(*   BD  the rule named `default` written as bare clauses                  *)
(* Relations (all between recorded executions of the implementation):      *)
(*   parses         every text is accepted by the parser                   *)
(*   same-program   SY: the parse tree equals that of line B, locations    *)
(*                  removed (pt); with an explicit leading `this.` the     *)
(*                  trees are compared with that no-op part removed (ptn)  *)
(*   same-verdicts  SY: the whole observation (statuses of file and rules, *)
(*                  status tree, or the error) equals that of line B       *)
(*   type-block-is-query   TQ: file and rule statuses equal those of B     *)
(*   default-rule   BD: as B, the first rule being called `default` or     *)
(*                  `<file>/default`                                       *)
(*   parse-tree-formats-agree  B: `parse-tree --print-yaml` and            *)
(*                  `--print-json` print the same tree                     *)
(***************************************************************************)
EXTENDS TraceCommon

VARIABLES l, base

NoBase == [var |-> "none"]

Has(r, f) == f \in DOMAIN r
Flag(st, f) == IF Has(st, f) THEN st[f] ELSE FALSE

SameProgram(line, b) ==
  IF Flag(line.style, "this") \/ (Has(line.style, "mix") /\ line.style.mix # 0)
  THEN line.ptn = b.ptn
  ELSE line.pt = b.pt

\* rule statuses as in B, the implicit rule being named default or <file>/default
DefaultNames(line) == {"default", line.file \o "/default"}
SameAsDefault(line, b) ==
  LET o == line.obs  bo == b.obs IN
  /\ o.kind = bo.kind
  /\ o.kind = "ok" =>
       /\ o.file = bo.file
       /\ Len(o.rules) = Len(bo.rules)
       /\ \A i \in 1 .. Len(o.rules) :
            /\ o.rules[i][2] = bo.rules[i][2]
            /\ IF bo.rules[i][1] = "default" THEN o.rules[i][1] \in DefaultNames(line)
               ELSE o.rules[i][1] = bo.rules[i][1]

Step(line) ==
  /\ Relate(line.i, "parses", line.ptkind = "ok")
  /\ CASE line.var = "B" -> /\ Judge(line)
                            /\ Relate(line.i, "parse-tree-formats-agree", line.pt_formats_agree)
                            /\ base' = line
       [] line.var = "SY" ->
            /\ Relate(line.i, "same-program", SameProgram(line, base))
            /\ Relate(line.i, "same-verdicts", line.obs = base.obs)
            /\ UNCHANGED base
       [] line.var = "TQ" ->
            /\ Judge(line)
            /\ Relate(line.i, "type-block-is-query", SameVerdicts(line.obs, base.obs))
            /\ UNCHANGED base
       [] line.var = "BD" ->
            /\ Relate(line.i, "default-rule", SameAsDefault(line, base))
            /\ UNCHANGED base

Init == l = 1 /\ base = NoBase
Next == l <= Len(Rec) /\ Step(Rec[l]) /\ l' = l + 1
Spec == Init /\ [][Next]_<<l, base>>

GroupOrder == (l <= Len(Rec) /\ Rec[l].var # "B") => base.var = "B"

TraceAccepted ==
  LET d == TLCGet("stats").diameter IN
  IF d - 1 = Len(Rec) THEN TRUE ELSE Print(<<"TRACE-REJECTED at line", d>>, FALSE)
=============================================================================
