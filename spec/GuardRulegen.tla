---------------------------- MODULE GuardRulegen ----------------------------
(***************************************************************************)
(* C19 - `cfn-guard rulegen` (commands/rulegen.rs).                        *)
(*                                                                         *)
(*   gen_rules   <-> RGModel : type -> property -> set of values           *)
(*   print_rules <-> RGAst   : per type                                    *)
(*        let <name>_resources = Resources.*[ Type == '<type>' ]           *)
(*        rule <name> when %<name>_resources !empty {                      *)
(*          %<name>_resources.Properties.<P> == v        one value         *)
(*          %<name>_resources.Properties.<P> IN [v, ..]  several values    *)
(*        }                                                                *)
(*   with <name> = the type in lower case, `::` replaced by `_`.           *)
(* The meaning of the printed file is GuardEval.Denote of RGAst; whether   *)
(* the source template passes its own rules, and whether a changed value   *)
(* is noticed, are therefore questions the specification answers.          *)
(* A template is a document of GuardValues (strings = code point tuples).  *)
(***************************************************************************)
EXTENDS GuardEval

RG_Resources  == <<82, 101, 115, 111, 117, 114, 99, 101, 115>>
RG_Type       == <<84, 121, 112, 101>>
RG_Properties == <<80, 114, 111, 112, 101, 114, 116, 105, 101, 115>>
RG_Suffix     == <<95, 114, 101, 115, 111, 117, 114, 99, 101, 115>>     \* _resources

RGHas(m, k) == m.t = "map" /\ \E i \in 1 .. Len(m.k) : m.k[i] = k
RGAt(m, k)  == m.v[CHOOSE i \in 1 .. Len(m.k) : m.k[i] = k]
RGRange(s)  == {s[i] : i \in 1 .. Len(s)}
RECURSIVE RGSetToSeq(_)
RGSetToSeq(S) == IF S = {} THEN <<>> ELSE LET x == CHOOSE y \in S : TRUE IN <<x>> \o RGSetToSeq(S \ {x})

\* TLC cannot build sets of values of different shapes: resources are addressed by their index in
\* the Resources map, value collections are sequences without repetition
RGResSeq(doc) ==
  IF RGHas(doc, RG_Resources) /\ RGAt(doc, RG_Resources).t = "map"
  THEN RGAt(doc, RG_Resources).v ELSE <<>>
RGHasProps(r) == RGHas(r, RG_Properties) /\ RGAt(r, RG_Properties).t = "map"
RGProps(r) == RGAt(r, RG_Properties)
RGTyped(r) == r.t = "map" /\ RGHas(r, RG_Type) /\ RGAt(r, RG_Type).t = "str"
RGTypeOf(r) == RGAt(r, RG_Type).v
\* the resources rulegen looks at: entries with a Properties map (and a Type)
RGIdx(doc) == {i \in 1 .. Len(RGResSeq(doc)) : RGTyped(RGResSeq(doc)[i]) /\ RGHasProps(RGResSeq(doc)[i])}
RGOfType(doc, T) == {i \in RGIdx(doc) : RGTypeOf(RGResSeq(doc)[i]) = T}
RGPropsAt(doc, i) == RGProps(RGResSeq(doc)[i])

\* one rule per resource type that has properties
RGTypes(doc) == {RGTypeOf(RGResSeq(doc)[i]) : i \in {j \in RGIdx(doc) : Len(RGPropsAt(doc, j).k) > 0}}
RGPropNames(doc, T) == UNION {RGRange(RGPropsAt(doc, i).k) : i \in RGOfType(doc, T)}

\* the same value written the same way (rulegen keeps one entry per distinct rendering)
RECURSIVE RGStrictEq(_, _)
RGStrictEq(a, b) ==
  IF a.t # b.t THEN FALSE
  ELSE CASE a.t = "map" -> a.k = b.k /\ \A i \in 1 .. Len(a.v) : RGStrictEq(a.v[i], b.v[i])
         [] a.t = "list" -> Len(a.v) = Len(b.v) /\ \A i \in 1 .. Len(a.v) : RGStrictEq(a.v[i], b.v[i])
         [] OTHER -> a = b
RGIn(seq, x) == \E i \in 1 .. Len(seq) : RGStrictEq(seq[i], x)
RECURSIVE RGValsFrom(_, _, _, _, _)
RGValsFrom(doc, T, P, i, acc) ==
  IF i > Len(RGResSeq(doc)) THEN acc
  ELSE IF i \in RGOfType(doc, T) /\ RGHas(RGPropsAt(doc, i), P) /\ ~RGIn(acc, RGAt(RGPropsAt(doc, i), P))
       THEN RGValsFrom(doc, T, P, i + 1, Append(acc, RGAt(RGPropsAt(doc, i), P)))
       ELSE RGValsFrom(doc, T, P, i + 1, acc)
\* the distinct values of property P over the resources of type T, as a sequence
RGVals(doc, T, P) == RGValsFrom(doc, T, P, 1, <<>>)

\* ---- names ---------------------------------------------------------------
RGLower(c) == IF c >= 65 /\ c <= 90 THEN c + 32 ELSE c
RECURSIVE RGName(_)
RGName(t) ==                           \* lower case, "::" -> "_"
  IF t = <<>> THEN <<>>
  ELSE IF Len(t) >= 2 /\ t[1] = 58 /\ t[2] = 58 THEN <<95>> \o RGName(SubSeq(t, 3, Len(t)))
  ELSE <<RGLower(t[1])>> \o RGName(Tail(t))
RGVarName(t) == RGName(t) \o RG_Suffix

\* ---- the printed rules file as an AST -------------------------------------
RGKey(k) == [p |-> "key", k |-> k]
RGGac(q, op, on, rhs) == [c |-> "gac", q |-> q, all |-> TRUE, neg |-> FALSE, op |-> op, on |-> on, rhs |-> rhs]
RGVal(v) == [r |-> "val", v |-> v]

\* The printed file as a structure: <<[type, rule, var, props: <<[p, op, vals]>>]>> (rule and var are
\* TLA+ strings: the names of the AST; their spelling is checked on code points by the trace
\* specification).  The order of rules, clauses and values is whatever the implementation's hash
\* tables give; the order of the values of an IN list matters to the evaluator (a list whose
\* first element is a list is compared as a list of lists), so the AST is built from a given order.
RGLet(T, var) ==
  [n |-> var,
   v |-> [r |-> "q", all |-> TRUE,
          q |-> <<RGKey(RG_Resources), [p |-> "all"],
                  [p |-> "filter", c |-> <<<<RGGac(<<RGKey(RG_Type)>>, "eq", FALSE, <<RGVal([t |-> "str", v |-> T])>>)>>>>]>>]]

RGClauseOf(var, pr) ==
  RGGac(<<[p |-> "var", n |-> var], RGKey(RG_Properties), RGKey(pr.p)>>, pr.op, FALSE,
        <<RGVal(IF pr.op = "in" THEN [t |-> "list", v |-> pr.vals] ELSE pr.vals[1])>>)

RGRuleOf(r) ==
  [n |-> r.rule,
   w |-> <<<<RGGac(<<[p |-> "var", n |-> r.var]>>, "empty", TRUE, <<>>)>>>>,
   lets |-> <<>>,
   b |-> [j \in 1 .. Len(r.props) |-> <<RGClauseOf(r.var, r.props[j])>>]]

RGAstFrom(rs) ==
  [lets |-> [j \in 1 .. Len(rs) |-> RGLet(rs[j].type, rs[j].var)],
   prules |-> <<>>,
   rules |-> [j \in 1 .. Len(rs) |-> RGRuleOf(rs[j])]]

\* the structure gen_rules / print_rules derive from a template, in one (arbitrary) order;
\* nm(T) = [rule |-> .., var |-> ..]
RGStructure(doc, nm) ==
  LET ts == RGSetToSeq(RGTypes(doc)) IN
  [j \in 1 .. Len(ts) |->
     LET T == ts[j]
         ps == RGSetToSeq(RGPropNames(doc, T)) IN
     [type |-> T, rule |-> nm[T].rule, var |-> nm[T].var,
      props |-> [k \in 1 .. Len(ps) |->
                   LET vals == RGVals(doc, T, ps[k]) IN
                   [p |-> ps[k], op |-> IF Len(vals) > 1 THEN "in" ELSE "eq", vals |-> vals]]]]

RGAst(doc, nm) == RGAstFrom(RGStructure(doc, nm))

\* ---- what the property asks of a template ---------------------------------
RGStatusOf(d, name) == d.rules[CHOOSE i \in 1 .. Len(d.rules) : d.rules[i][1] = name][2]
RGAllPass(d) == d.kind = "ok" /\ \A i \in 1 .. Len(d.rules) : d.rules[i][2] = "PASS"

\* every resource of a type has the same property names
RGAllOfType(doc, T) == {i \in 1 .. Len(RGResSeq(doc)) : RGTyped(RGResSeq(doc)[i]) /\ RGTypeOf(RGResSeq(doc)[i]) = T}
RGUniform(doc) ==
  \A T \in RGTypes(doc) : \A i \in RGAllOfType(doc, T) :
    i \in RGIdx(doc) /\ RGRange(RGPropsAt(doc, i).k) = RGPropNames(doc, T)
\* no property has a list among several distinct values (IN flattens a list on its left)
RGNoListAmongSeveral(doc) ==
  \A T \in RGTypes(doc) : \A P \in RGPropNames(doc, T) :
    Len(RGVals(doc, T, P)) > 1 => \A j \in 1 .. Len(RGVals(doc, T, P)) : RGVals(doc, T, P)[j].t # "list"

\* values equal up to the order of map keys
RECURSIVE RGSameVal(_, _)
RGSameVal(a, b) ==
  IF a.t # b.t THEN FALSE
  ELSE CASE a.t = "map" -> /\ Len(a.k) = Len(b.k)
                           /\ \A i \in 1 .. Len(a.k) : \E j \in 1 .. Len(b.k) : a.k[i] = b.k[j] /\ RGSameVal(a.v[i], b.v[j])
         [] a.t = "list" -> Len(a.v) = Len(b.v) /\ \A i \in 1 .. Len(a.v) : RGSameVal(a.v[i], b.v[i])
         [] OTHER -> a = b
=============================================================================
