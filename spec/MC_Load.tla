------------------------------- MODULE MC_Load -------------------------------
(***************************************************************************)
(* C10 (positions) / C11 (a document means the same however it is written  *)
(* or loaded).                                                             *)
(* mode = "doc":    (document, format, layout) states; TLC writes the      *)
(*   document with GuardLoad.Ser, checks on the specification that every   *)
(*   recorded position is the start of that scalar's token, and prints the *)
(*   text, the document and the positions for the harness to feed to the   *)
(*   three loaders (validate, test, run_checks).                           *)
(* mode = "scalar": (spelling, style) states; prints the type class the    *)
(*   scalar must load as (JSON-compatible plain spellings are typed,       *)
(*   quoted ones are strings, the rest only has to be the same for every   *)
(*   loader).                                                              *)
(* mode = "tag":    (short form, payload kind) states.                     *)
(***************************************************************************)
EXTENDS GuardLoad, Json, IOUtils

I(n) == [t |-> "int", v |-> n]
F(m) == [t |-> "flt", v |-> m]
S(cp) == [t |-> "str", v |-> cp]
B(b) == [t |-> "bool", v |-> b]
N == [t |-> "null"]
L(xs) == [t |-> "list", v |-> xs]
M(ks, vs) == [t |-> "map", k |-> ks, v |-> vs]

ka == <<97>> kb == <<98>> kc == <<99>> kd == <<100>>
kName == <<78, 97, 109, 101>>  kKeyDash == <<107, 45, 49>>  kUni == <<233, 26085>>

Docs == <<
  M(<<ka, kb>>, <<I(1), S(<<120>>)>>),
  M(<<ka, kb, kc, kd>>, <<I(-3), F(1500), B(TRUE), N>>),
  M(<<ka, kb, kc>>, <<S(<<>>), S(<<116, 114, 117, 101>>), S(<<49, 50>>)>>),
  M(<<ka, kb>>, <<L(<<I(1), I(2), I(1)>>), L(<<>>)>>),
  M(<<ka, kb>>, <<M(<<kc, kd>>, <<I(1), M(<<ka>>, <<S(<<120, 121>>)>>)>>), M(<<>>, <<>>)>>),
  M(<<kName, kKeyDash>>, <<L(<<M(<<ka, kb>>, <<I(1), S(<<104, 233, 108, 108, 111>>)>>), M(<<ka>>, <<I(2)>>)>>), S(<<120, 32, 121>>)>>),
  M(<<ka>>, <<L(<<L(<<I(1), I(2)>>), L(<<S(<<110, 117, 108, 108>>)>>), S(<<121>>)>>)>>),
  M(<<kUni, ka>>, <<S(<<26085, 26412>>), L(<<B(FALSE), N, F(500), I(0), S(<<45, 49>>)>>)>>),
  M(<<ka, kb>>, <<I(1), I(1)>>)
>>

Fmts == {"json", "pretty", "flow", "block"}
Lays == {[ind |-> i, quote |-> q, comments |-> c, blanks |-> b, lead |-> ld] :
           i \in {0, 2, 4}, q \in {"plain", "single", "double"}, c \in BOOLEAN, b \in BOOLEAN, ld \in {0, 2}}
\* tab indentation (ind = 0) exists for pretty JSON only (YAML block style forbids tabs)
LayOk(fmt, lay) == lay.ind = 0 => (fmt = "pretty" /\ lay.quote = "double" /\ ~lay.comments /\ ~lay.blanks)

\* spellings for the scalar table
Spellings == <<
  <<48>>, <<49>>, <<45, 49>>, <<49, 50, 51>>, <<48, 48, 55>>, <<43, 53>>, <<45, 48>>,
  <<49, 46, 53>>, <<45, 48, 46, 53>>, <<49, 101, 51>>, <<49, 69, 43, 51>>, <<49, 46, 53, 101, 45, 50>>, <<48, 46, 48>>,
  <<46, 53>>, <<53, 46>>, <<49, 101>>,
  <<105, 110, 102>>, <<110, 97, 110>>, <<46, 105, 110, 102>>, <<46, 110, 97, 110>>, <<45, 46, 105, 110, 102>>, <<78, 97, 78>>,
  <<105, 110, 102, 105, 110, 105, 116, 121>>,
  <<116, 114, 117, 101>>, <<102, 97, 108, 115, 101>>, <<84, 114, 117, 101>>, <<84, 82, 85, 69>>, <<70, 97, 108, 115, 101>>,
  <<121, 101, 115>>, <<110, 111>>, <<111, 110>>, <<111, 102, 102>>,
  <<110, 117, 108, 108>>, <<78, 117, 108, 108>>, <<78, 85, 76, 76>>, <<126>>, <<>>,
  <<48, 120, 49, 70>>, <<48, 111, 49, 55>>, <<49, 95, 48, 48, 48>>, <<48, 98, 49, 48>>,
  <<97, 98, 99>>, <<97, 32, 98>>, <<50, 48, 48, 49, 45, 49, 50, 45, 49, 52>>, <<49, 58, 51, 48>>,
  <<233>>, <<26085, 26412>>,
  \* spellings longer than 20 characters (no integer, boolean or null spelling is that long - a float can be)
  <<49, 46, 50, 51, 52, 53, 54, 55, 56, 57, 48, 49, 50, 51, 52, 53, 54, 55, 101, 45, 48, 53>>,
  <<48, 46, 49, 50, 51, 52, 53, 54, 55, 56, 57, 48, 49, 50, 51, 52, 53, 54, 55, 56, 57, 48, 49>>,
  <<97, 98, 99, 100, 101, 102, 103, 104, 105, 106, 107, 108, 109, 110, 111, 112, 113, 114, 115, 116, 117, 118, 119, 120, 121, 122>>
>>
\* string literals of a JSON document, as written between the quotes
Escapes == <<
  <<97, 92, 110, 98>>,
  <<116, 97, 98, 92, 116, 104, 101, 114, 101>>,
  <<113, 92, 34, 113>>,
  <<98, 97, 99, 107, 92, 92, 115, 108, 97, 115, 104>>,
  <<115, 108, 92, 47, 97, 115, 104>>,
  <<92, 117, 48, 48, 101, 57>>,
  <<92, 117, 48, 48, 52, 49, 66, 67>>,
  <<92, 117, 54, 53, 101, 53, 92, 117, 54, 55, 50, 99>>,
  <<92, 117, 100, 56, 51, 100, 92, 117, 100, 101, 48, 48>>,
  <<120, 92, 117, 48, 48, 48, 97, 121>>,
  <<99, 114, 92, 114, 108, 102>>,
  <<92, 98, 92, 102>>,
  <<92, 117, 48, 48, 69, 57, 116, 92, 117, 48, 48, 99, 57>>,
  <<92, 117, 68, 56, 51, 68, 92, 117, 68, 69, 48, 48, 33>>,
  <<112, 108, 97, 105, 110>>,
  <<233, 32, 114, 97, 119>>
>>
Styles == {"plain", "single", "double", "literal", "folded", "tag-str", "tag-int", "tag-float"}

\* intrinsic function short forms: single-value and sequence-value forms (rules/mod.rs)
SingleTags == << <<82,101,102>>, <<66,97,115,101,54,52>>, <<83,117,98>>, <<71,101,116,65,90,115>>,
                 <<73,109,112,111,114,116,86,97,108,117,101>>, <<71,101,116,65,116,116>>,
                 <<67,111,110,100,105,116,105,111,110>>, <<82,101,102,65,108,108>> >>
SeqTags == << <<71,101,116,65,116,116>>, <<83,117,98>>, <<83,101,108,101,99,116>>, <<83,112,108,105,116>>,
              <<74,111,105,110>>, <<70,105,110,100,73,110,77,97,112>>, <<65,110,100>>, <<69,113,117,97,108,115>>,
              <<67,111,110,116,97,105,110,115>>, <<69,97,99,104,77,101,109,98,101,114,73,110>>,
              <<69,97,99,104,77,101,109,98,101,114,69,113,117,97,108,115>>, <<86,97,108,117,101,79,102>>,
              <<73,102>>, <<78,111,116>>, <<79,114>> >>

VARIABLES mode, a, b, c
vars == <<mode, a, b, c>>
Init ==
  \/ mode = "doc" /\ a \in 1 .. Len(Docs) /\ b \in Fmts /\ c \in {l \in Lays : LayOk(b, l)}
  \/ mode = "scalar" /\ a \in 1 .. Len(Spellings) /\ b \in Styles /\ c = 0
  \/ mode = "tag" /\ a \in 1 .. Len(SingleTags) /\ b = "single" /\ c = 0
  \/ mode = "tag" /\ a \in 1 .. Len(SeqTags) /\ b = "seq" /\ c = 0
  \/ mode = "escape" /\ a \in 1 .. Len(Escapes) /\ b = "json" /\ c = 0
Next == UNCHANGED vars
Spec == Init /\ [][Next]_vars

\* the token of a scalar as written: what must be found at its recorded position
TokenAt(txt, off, tok) == SubSeq(txt, off + 1, off + Len(tok)) = tok

RECURSIVE ScalarPaths(_, _)
ScalarPaths(v, path) ==
  IF v.t = "map" THEN UNION {ScalarPaths(v.v[i], Append(path, v.k[i])) : i \in 1 .. Len(v.v)}
  ELSE IF v.t = "list" THEN UNION {ScalarPaths(v.v[i], Append(path, Digits(i - 1))) : i \in 1 .. Len(v.v)}
  ELSE {path}

DocOK ==
  mode = "doc" =>
  LET D == Docs[a]
      w == Ser(D, b, c)
      root == WithPaths(D, <<>>) IN
  \* every scalar of the document has exactly one recorded position ...
  /\ {w.pos[i].p : i \in 1 .. Len(w.pos)} = ScalarPaths(D, <<>>)
  /\ Len(w.pos) = Cardinality(ScalarPaths(D, <<>>))
  \* ... at which the text shows that scalar's token
  /\ \A i \in 1 .. Len(w.pos) :
        TokenAt(w.txt, w.pos[i].off, ScalarText(Resolve(root, w.pos[i].p, 1), b, c))
  /\ PrintT(<<"REPLAY", ToJson([kind |-> "doc", txt |-> w.txt, fmt |-> b, doc |-> D, lay |-> c,
                                pos |-> Positions(w)])>>)

ScalarOK ==
  mode = "scalar" =>
  PrintT(<<"REPLAY", ToJson([kind |-> "scalar", cp |-> Spellings[a], style |-> b,
                             expect |-> ExpectedType(Spellings[a], b)])>>)

\* an escaped spelling stands for a string without a backslash left over from an escape pair, and
\* a spelling without backslashes stands for itself
EscapeOK ==
  mode = "escape" =>
  LET u == Unescape(Escapes[a], 1) IN
  /\ Len(u) <= Len(Escapes[a])
  /\ (\A i \in 1 .. Len(Escapes[a]) : Escapes[a][i] # 92) => u = Escapes[a]
  /\ PrintT(<<"REPLAY", ToJson([kind |-> "escape", cp |-> Escapes[a], want |-> u])>>)

TagOK ==
  mode = "tag" =>
  LET t == IF b = "single" THEN SingleTags[a] ELSE SeqTags[a] IN
  PrintT(<<"REPLAY", ToJson([kind |-> "tag", tag |-> t, form |-> b, long |-> LongForm(t)])>>)
=============================================================================
