---------------------------- MODULE TraceLifecycle ----------------------------
(***************************************************************************)
(* C08 - trace validation of how runs end.                                 *)
(*                                                                         *)
(* In the specification every run of a command is a finite walk            *)
(*   read arguments -> parse rules -> load data -> evaluate -> report      *)
(* (GuardCli.Run; GuardEval.Denote is total: a result or an error kind),   *)
(* and it ends in exactly one of two ways:                                 *)
(*   result      the documented exit code of the verdict                   *)
(*               (validate 0 / 19, test 0 / 7, parse-tree 0, rulegen 0)    *)
(*   diagnostic  an error exit (5 parse error, 1 test / rulegen error,     *)
(*               255 `Error occurred ..`, 2 usage) with a message          *)
(* A panic (exit 101 / `panicked at`), a signal (stack overflow, abort) or *)
(* a hang is no state of that walk: a trace line showing one is a          *)
(* violation.  A rules text the parser rejects is rejected as a whole: the *)
(* diagnostic names a line and a column and no rule of it is evaluated     *)
(* (hook events: no rule_eval_begin).                                      *)
(* Lines: library calls (run_checks, parse-tree in-process; `abort` when   *)
(* the worker process died on the case) and command-line runs of the real  *)
(* binary on the same cases.                                               *)
(***************************************************************************)
EXTENDS Integers, Sequences, FiniteSets, TLC, Json, IOUtils

Rec == ndJsonDeserialize(IOEnv.TRACE)
VARIABLE l

Relate(i, name, holds) ==
  IF holds THEN PrintT(<<"RELATE", i, "ok", name>>) ELSE PrintT(<<"RELATE", i, "broken", name>>)

ResultCodes(cmd) == CASE cmd = "validate" -> {0, 19} [] cmd = "test" -> {0, 7} [] OTHER -> {0}
ErrorCodes(cmd) == CASE cmd = "validate" -> {5, 255, 2}
                     [] cmd = "test" -> {1, 5, 255, 2}
                     [] cmd = "parse-tree" -> {5, 255, 2}
                     [] cmd = "rulegen" -> {1, 255, 2}

LibEnd(r) == r.kind \in {"ok", "err"}

LibStep(line) ==
  IF "abort" \in DOMAIN line
  THEN Relate(line.i, "terminates-normally", FALSE)
  ELSE /\ Relate(line.i, "terminates-normally", LibEnd(line.lib) /\ LibEnd(line.libv) /\ LibEnd(line.pt))
       /\ Relate(line.i, "same-end-verbose", line.lib.kind = line.libv.kind)
       /\ ~line.accepted =>
            /\ Relate(line.i, "rejected-as-a-whole", line.lib.kind # "ok" /\ line.pt.kind # "ok" /\ line.evaluated = 0)
            /\ Relate(line.i, "parse-error-located", line.pt.kind = "err" => line.located)

CliStep(line) ==
  LET e == line.end IN
  /\ Relate(line.i, "terminates-normally", e.kind = "exit" /\ ~line.panic /\ e.code # 101)
  /\ e.kind = "exit" /\ ~line.panic =>
       /\ Relate(line.i, "documented-exit", e.code \in ResultCodes(line.cmd) \cup ErrorCodes(line.cmd))
       /\ Relate(line.i, "diagnostic-has-message", e.code \in ErrorCodes(line.cmd) => line.message)
       /\ (~line.accepted /\ line.cmd \in {"validate", "test", "parse-tree"}) =>
            /\ Relate(line.i, "rejected-as-a-whole", e.code \notin ResultCodes(line.cmd) /\ line.evaluated = 0)
            /\ Relate(line.i, "parse-error-located", line.located)

Step(line) == IF line.src = "lib" THEN LibStep(line) ELSE CliStep(line)

Init == l = 1
Next == l <= Len(Rec) /\ Step(Rec[l]) /\ l' = l + 1
Spec == Init /\ [][Next]_l

TraceAccepted ==
  LET d == TLCGet("stats").diameter IN
  IF d - 1 = Len(Rec) THEN TRUE ELSE Print(<<"TRACE-REJECTED at line", d>>, FALSE)
=============================================================================
