SPECIFICATION Spec
CONSTANTS
  Queries <- E1Queries
  Docs <- E1Docs
  Rhs <- E1Rhs
  OpRhs <- E1OpRhs
  Quantifiers <- E1Quantifiers
  Allowed <- E1Allowed
INVARIANT PathOK
CHECK_DEADLOCK FALSE
