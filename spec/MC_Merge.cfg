SPECIFICATION Spec
INVARIANT MergeLaws
CHECK_DEADLOCK FALSE
