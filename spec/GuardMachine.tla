---------------------------- MODULE GuardMachine ----------------------------
(***************************************************************************)
(* The mutable evaluation state of one (rules file, document) evaluation:  *)
(*   cache   RootScope.rules_status: memoised status of rules referenced   *)
(*           by name (eval_context.rs:1087-1115)                           *)
(*   memo    Scope.resolved_variables of the root scope and of every block *)
(*           scope: (scope id, variable) -> number of results memoised     *)
(*           (eval_context.rs:1117-1163, 1545-1587)                        *)
(*   stack   rule names whose rule_status computation is in progress       *)
(*   captured variables that received captured keys (excluded from the     *)
(*           memo discipline, as the property excludes them)               *)
(* One action per critical section of the implementation; the hook events  *)
(* of --cfg guard_verif name them one to one.                              *)
(*                                                                         *)
(* C04 (history dimension): whatever order references populate the cache   *)
(* and the memo in, a cached status is the status that was computed        *)
(* (single assignment), a memoised variable is read back unchanged, and    *)
(* the cache agrees with the statuses the file evaluation reports.         *)
(* C12: NewRoot empties everything - nothing survives from one             *)
(* (rules, data) pair to the next.                                         *)
(***************************************************************************)
EXTENDS Integers, Sequences, FiniteSets, TLC

VARIABLES cache, memo, stack, captured

mvars == <<cache, memo, stack, captured>>

Empty == [x \in {} |-> 0]
Has(f, k) == k \in DOMAIN f
Put(f, k, v) == [x \in (DOMAIN f) \cup {k} |-> IF x = k THEN v ELSE f[x]]
OnStack(name) == \E i \in 1 .. Len(stack) : stack[i] = name

MInit == cache = Empty /\ memo = Empty /\ stack = <<>> /\ captured = {}

\* root_scope_with: a fresh RootScope
NewRoot == cache' = Empty /\ memo' = Empty /\ stack' = <<>> /\ captured' = {}

\* rule_status, cache miss: the computation starts.  A name that is already being computed
\* would recurse without bound (rule reference cycle).
RuleEvalBegin(name) ==
  /\ ~Has(cache, name)
  /\ ~OnStack(name)
  /\ stack' = Append(stack, name)
  /\ UNCHANGED <<cache, memo, captured>>

\* rule_status, cache miss: the computed status is stored (single assignment)
RuleStatusMiss(name, st) ==
  /\ Len(stack) > 0 /\ stack[Len(stack)] = name
  /\ ~Has(cache, name)
  /\ cache' = Put(cache, name, st)
  /\ stack' = SubSeq(stack, 1, Len(stack) - 1)
  /\ UNCHANGED <<memo, captured>>

\* rule_status, cache hit: the status returned is the one stored
RuleStatusHit(name, st) ==
  /\ Has(cache, name) /\ cache[name] = st
  /\ UNCHANGED mvars

\* resolve_variable served by a literal: no state
VarLiteral == UNCHANGED mvars

\* resolve_variable: first evaluation of a query / function variable in this scope
VarComputed(scope, sid, name, n) ==
  /\ (scope = "root" /\ name \notin captured) => ~Has(memo, <<sid, name>>)
  /\ memo' = Put(memo, <<sid, name>>, n)
  /\ UNCHANGED <<cache, stack, captured>>

\* resolve_variable served from the memo: same number of results as first computed
VarMemo(scope, sid, name, n) ==
  /\ name \notin captured => (Has(memo, <<sid, name>>) /\ memo[<<sid, name>>] = n)
  /\ UNCHANGED mvars

\* add_variable_capture_key: the variable is mutated on every evaluation
Capture(name) ==
  /\ captured' = captured \cup {name}
  /\ UNCHANGED <<cache, memo, stack>>

\* end of eval_rules_file: no computation left open; the cache agrees with `final`, the status
\* the file evaluation reports for a referenced name (first definition that is not SKIP)
Finish(final(_)) ==
  /\ stack = <<>>
  /\ \A name \in DOMAIN cache : cache[name] = final(name)
  /\ UNCHANGED mvars
=============================================================================
