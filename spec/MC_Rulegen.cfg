SPECIFICATION Spec
INVARIANT SelfValidates
INVARIANT DetectsChange
INVARIANT WellFormed
INVARIANT Emit
CHECK_DEADLOCK FALSE
