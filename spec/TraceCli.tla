------------------------------ MODULE TraceCli ------------------------------
(***************************************************************************)
(* C06 / C07 / C12 / C17 - trace validation of command-line runs.          *)
(*                                                                         *)
(* Each trace line is one invocation of the real cfn-guard binary (or of   *)
(* the library entry point): the rules files (generated programs, or a     *)
(* syntactically broken / empty file), the data files (generated           *)
(* documents, or malformed text), input-parameter documents, the mode      *)
(* (output format x flags x entry point) and what the run produced: the    *)
(* process exit status and what the output *shows* (extracted by the       *)
(* harness without any knowledge of the semantics):                        *)
(*   perdata  [d, status, pass, fail, skip]      structured json / yaml    *)
(*   perpair  [r, d, file, rules]                summary table, print-json,*)
(*                                               plain -o json, junit      *)
(*   nresults number of SARIF results; sres / arts / regions_wf: results   *)
(*            per (data file, rule), artifacts, 1-based regions            *)
(* The specification derives the same from Denote on every (rules file,    *)
(* merged document) pair and from the GuardCli driver machine; the line is *)
(* accepted when they coincide.  Because every mode of one input set is    *)
(* judged against the same derivation, agreement with the specification    *)
(* implies agreement between the modes (C07); because every pair is judged *)
(* against Denote of that pair alone, a batch equals its singletons (C12); *)
(* because the document is the specification's Merge of the parameter      *)
(* documents and the data, parameters are merged without loss or override  *)
(* (C17).                                                                  *)
(***************************************************************************)
EXTENDS TraceCommon, GuardReport, GuardCli

VARIABLE l

NR(line) == Len(line.rules)
ND(line) == Len(line.data)

RECURSIVE MergeAll(_, _, _)
MergeAll(acc, docs, i) ==
  IF i > Len(docs) THEN [err |-> FALSE, v |-> acc]
  ELSE LET m == Merge(acc, docs[i]) IN IF m.err THEN m ELSE MergeAll(m.v, docs, i + 1)

\* the document rules are evaluated against: parameters first (in the order given), then the data
Merged(line, d) ==
  IF Len(line.params) = 0 \/ ~line.params_used THEN [err |-> FALSE, v |-> line.data[d].doc]
  ELSE MergeAll(line.params[1], Tail(line.params) \o <<line.data[d].doc>>, 1)

OkPair(line, r, d) == line.rules[r].parse = "ok" /\ line.data[d].load = "ok"

PDen(line, r, d) ==
  LET m == Merged(line, d) IN
  IF m.err THEN [kind |-> "conflict"] ELSE Denote(line.rules[r].prog, m.v, {})

Ev(line, r, d) ==
  IF ~OkPair(line, r, d) THEN "SKIP"
  ELSE LET x == PDen(line, r, d) IN
       IF x.kind = "ok" THEN x.file ELSE "ERR"

PathOf(mode) ==
  CASE mode.fmt \in {"sjson", "syaml", "sarif"} -> "structured"
    [] mode.fmt = "junit" -> "junit"
    [] OTHER -> "plain"

Scn(line) ==
  [rules |-> [r \in 1 .. NR(line) |-> line.rules[r].parse],
   data |-> [d \in 1 .. ND(line) |-> line.data[d].load],
   ev |-> [p \in (1 .. NR(line)) \X (1 .. ND(line)) |-> Ev(line, p[1], p[2])],
   missing |-> FALSE,
   conflict |-> \E d \in 1 .. ND(line) : line.data[d].load = "ok" /\ Merged(line, d).err,
   path |-> PathOf(line.mode)]

NamesWith(x, st) == {x.rules[i][1] : i \in {j \in 1 .. Len(x.rules) : x.rules[j][2] = st}}
SetOf(seq) == {seq[i] : i \in 1 .. Len(seq)}

\* what the structured report of data file d must show: the union over the parsed rules files
RECURSIVE FoldStatus(_, _, _, _)
FoldStatus(line, d, r, acc) ==
  IF r > NR(line) THEN acc
  ELSE IF ~OkPair(line, r, d) THEN FoldStatus(line, d, r + 1, acc)
  ELSE FoldStatus(line, d, r + 1, StatusAnd(acc, PDen(line, r, d).file))

RECURSIVE SumFailing(_, _, _)
SumFailing(line, d, rs) ==
  IF rs = {} THEN 0
  ELSE LET r == CHOOSE x \in rs : TRUE
           rr == PDen(line, r, d).rules IN
       Cardinality({j \in 1 .. Len(rr) : rr[j][2] = "FAIL"}) + SumFailing(line, d, rs \ {r})

PerDataOk(line, shown) ==
  /\ {shown[i].d : i \in 1 .. Len(shown)} = {d \in 1 .. ND(line) : line.data[d].load = "ok"}
  /\ \A i \in 1 .. Len(shown) :
       LET d == shown[i].d
           rs == {r \in 1 .. NR(line) : OkPair(line, r, d)} IN
       /\ shown[i].status = FoldStatus(line, d, 1, "SKIP")
       /\ SetOf(shown[i].pass) = UNION {NamesWith(PDen(line, r, d), "PASS") : r \in rs}
       /\ SetOf(shown[i].skip) = UNION {NamesWith(PDen(line, r, d), "SKIP") : r \in rs}
       /\ SetOf(shown[i].fail) = UNION {NamesWith(PDen(line, r, d), "FAIL") : r \in rs}
       \* one not_compliant entry per failing rule of every rules file (rules files may share names)
       /\ ("nfail" \in DOMAIN shown[i]) => shown[i].nfail = SumFailing(line, d, rs)

\* per (rules file, data file) views.  `rules` may be absent (junit shows only the file status);
\* a view restricted by --show-summary shows only some statuses (line.mode.shows)
PerPairOk(line, shown) ==
  LET all == {p \in (1 .. NR(line)) \X (1 .. ND(line)) : OkPair(line, p[1], p[2])}
      seen == {<<shown[i].r, shown[i].d>> : i \in 1 .. Len(shown)} IN
  \* every pair is shown; a summary restricted to some statuses may omit a pair that has no
  \* rule with such a status
  /\ seen \subseteq all
  /\ \A p \in all \ seen :
        \A st \in SetOf(line.mode.shows) : NamesWith(PDen(line, p[1], p[2]), st) = {}
  /\ Len(shown) = Cardinality(seen)
  /\ \A i \in 1 .. Len(shown) :
       LET x == PDen(line, shown[i].r, shown[i].d) IN
       /\ shown[i].file = x.file
       /\ shown[i].has_rules =>
            \A st \in SetOf(line.mode.shows) : SetOf(shown[i][st]) = NamesWith(x, st)

RECURSIVE CountItems(_)
CountItems(items) ==
  IF Len(items) = 0 THEN 0
  ELSE LET it == items[1]
           here == IF it.k \in {"rule", "disj"} THEN CountItems(it.ch) ELSE 1 IN
       here + CountItems(Tail(items))

\* The item "query for block clause did not retrieve any value" of a failed block clause is there or
\* not depending on Filter records that are not part of the derived record (GuardReport.NormItems,
\* C09 compares reports modulo these items): the number of SARIF results is therefore known up to
\* the number of failed block nodes.
RECURSIVE FailedBlocks(_), FailedBlocksIn(_, _)
FailedBlocks(n) == (IF n.k = "Block" /\ n.st = "FAIL" THEN 1 ELSE 0) + FailedBlocksIn(n.ch, 1)
FailedBlocksIn(ch, i) == IF i > Len(ch) THEN 0 ELSE FailedBlocks(ch[i]) + FailedBlocksIn(ch, i + 1)
RECURSIVE SumLow(_, _), SumHigh(_, _)
SumLow(line, S) ==
  IF S = {} THEN 0
  ELSE LET p == CHOOSE q \in S : TRUE IN
       CountItems(NormItems(Simplify(PDen(line, p[1], p[2]).tree).nc)) + SumLow(line, S \ {p})
SumHigh(line, S) ==
  IF S = {} THEN 0
  ELSE LET p == CHOOSE q \in S : TRUE
           t == PDen(line, p[1], p[2]).tree IN
       CountItems(Simplify(t).nc) + FailedBlocks(t) + SumHigh(line, S \ {p})
SOkPairs(line) == {p \in (1 .. NR(line)) \X (1 .. ND(line)) : OkPair(line, p[1], p[2])}
SarifLow(line) == SumLow(line, SOkPairs(line))
SarifHigh(line) == SumHigh(line, SOkPairs(line))
SarifResultsOk(line, n) == SarifLow(line) <= n /\ n <= SarifHigh(line)

\* The shape of the SARIF run (sarif.rs): one artifact per data file whose combined report is FAIL;
\* every result points into such a file, carries the upper-cased name of a failing rule as ruleId
\* (the recorder maps the ruleId back to the rule name, `rule`), and every failing rule of a data
\* file has as many results as its report has messages (known up to the "block none" items);
\* regions are 1-based.  obs.sres = [d, rule, n]: n results for rule `rule` pointing into data file d.
RECURSIVE SumRule(_, _, _, _, _)
SumRule(line, d, name, rs, high) ==
  IF rs = {} THEN 0
  ELSE LET r == CHOOSE x \in rs : TRUE
           t == PDen(line, r, d).tree
           its == SelectSeq(Simplify(t).nc, LAMBDA it : it.k = "rule" /\ it.n = name)
           nodes == SelectSeq(t.ch, LAMBDA n : n.k = "Rule" /\ n.n = name)
           here == IF high THEN CountItems(its) + FailedBlocksIn(nodes, 1)
                   ELSE CountItems(NormItems(its)) IN
       here + SumRule(line, d, name, rs \ {r}, high)
SarifShapeOk(line, obs) ==
  LET okD == {d \in 1 .. ND(line) : line.data[d].load = "ok"}
      failD == {d \in okD : FoldStatus(line, d, 1, "SKIP") = "FAIL"}
      RS(d) == {r \in 1 .. NR(line) : OkPair(line, r, d)}
      FailNames(d) == UNION {NamesWith(PDen(line, r, d), "FAIL") : r \in RS(d)}
      Seen(d, name) == {i \in 1 .. Len(obs.sres) : obs.sres[i].d = d /\ obs.sres[i].rule = name}
      Count(d, name) == IF Seen(d, name) = {} THEN 0 ELSE obs.sres[CHOOSE i \in Seen(d, name) : TRUE].n IN
  /\ obs.regions_wf
  /\ SetOf(obs.arts) = failD
  /\ Len(obs.arts) = Cardinality(failD)
  /\ \A i \in 1 .. Len(obs.sres) : obs.sres[i].d \in failD /\ obs.sres[i].rule \in FailNames(obs.sres[i].d)
  /\ \A d \in failD : \A name \in FailNames(d) :
        /\ Cardinality(Seen(d, name)) <= 1
        /\ SumRule(line, d, name, RS(d), FALSE) <= Count(d, name)
        /\ Count(d, name) <= SumRule(line, d, name, RS(d), TRUE)

JudgeCli(line) ==
  LET scn == Scn(line)
      fin == Run(scn)
      obs == line.obs
      exitOk == obs.exit = fin.exit
      shownOk ==
        IF fin.aborted \/ ~exitOk THEN TRUE
        ELSE CASE obs.view = "perdata" -> obs.wf /\ PerDataOk(line, obs.shown)
               [] obs.view = "perpair" -> obs.wf /\ PerPairOk(line, obs.shown)
               [] obs.view = "nresults" -> /\ obs.wf
                                           /\ SarifResultsOk(line, obs.nresults)
                                           /\ ("sres" \in DOMAIN obs) => SarifShapeOk(line, obs)
               [] OTHER -> obs.wf
  IN
  /\ PrintT(<<"CLI", line.i, IF exitOk THEN "ok" ELSE "exit", fin.exit, obs.exit>>)
  /\ PrintT(<<"CLI", line.i, IF shownOk THEN "ok" ELSE "shown", 0, 0>>)

Init == l = 1
Next == l <= Len(Rec) /\ JudgeCli(Rec[l]) /\ l' = l + 1
Spec == Init /\ [][Next]_l
TraceAccepted ==
  LET d == TLCGet("stats").diameter IN
  IF d - 1 = Len(Rec) THEN TRUE ELSE Print(<<"TRACE-REJECTED at line", d>>, FALSE)
=============================================================================
