----------------------------- MODULE TraceReport -----------------------------
(***************************************************************************)
(* C09 / C10 - trace validation of structured reports and reported paths.  *)
(* Each line: a generated program and document, the implementation's       *)
(* record tree with value-check details (obs.ftree) and the structured     *)
(* report it produced for the same inputs (obs.report).                    *)
(*   JUDGE    verdicts and record shape against Denote (as TraceEval)      *)
(*   full     the record's value checks - kind, custom message, `from` /   *)
(*            `to` kind, path and value - are exactly those the            *)
(*            specification derives (C10: the reported paths and values)   *)
(*   report   the report is Simplify(record) (C09: nothing dropped, nothing*)
(*            invented, attributed to the right rule, with its message)    *)
(*   partition, status   the partition laws of C09 hold on the report      *)
(*   resolve  every reported path resolves in the document to the reported *)
(*            value; for an unresolved check the next queried segment does *)
(*            not exist under the point reached (C10)                       *)
(***************************************************************************)
EXTENDS TraceCommon, GuardReport

VARIABLE l

SetOf(seq) == {seq[i] : i \in 1 .. Len(seq)}

ObsReport(r) == [status |-> r.status, compliant |-> SetOf(r.compliant), na |-> SetOf(r.na), nc |-> r.nc]

DistinctNames(rules) == \A i, j \in 1 .. Len(rules) : i # j => rules[i][1] # rules[j][1]

JudgeLine(line) ==
  /\ Judge(line)
  /\ IF line.obs.kind # "ok" THEN TRUE
     ELSE
       LET d == Den(line, {})
           rep == line.obs.report IN
       /\ Relate(line.i, "full", d.kind = "ok" /\ Pub(d.tree) = line.obs.ftree)
       /\ IF rep.kind # "ok"
          THEN Relate(line.i, "report-" \o rep.kind,
                      rep.kind = "panic" /\ AnyPanic(Simplify(line.obs.ftree).nc))
          ELSE
            LET want == Simplify(line.obs.ftree)
                got == ObsReport(rep) IN
            /\ Relate(line.i, "report", NormReport(got) = NormReport(want))
            /\ Relate(line.i, "status", StatusLaw(got) /\ got.status = line.obs.file)
            /\ Relate(line.i, "partition", DistinctNames(line.obs.rules) => PartitionLaw(got, line.obs.rules))
       /\ Relate(line.i, "resolve", d.kind = "ok" => PathsSound(DocPaths(line.doc), d.tree))

Init == l = 1
Next == l <= Len(Rec) /\ JudgeLine(Rec[l]) /\ l' = l + 1
Spec == Init /\ [][Next]_l
TraceAccepted ==
  LET d == TLCGet("stats").diameter IN
  IF d - 1 = Len(Rec) THEN TRUE ELSE Print(<<"TRACE-REJECTED at line", d>>, FALSE)
=============================================================================
