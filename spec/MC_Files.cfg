SPECIFICATION Spec
INVARIANT SameSet
INVARIANT NoRepeat
INVARIANT Selected
INVARIANT Sorted
INVARIANT Emit
CHECK_DEADLOCK FALSE
