----------------------------- MODULE TraceRepeat -----------------------------
(***************************************************************************)
(* C05 - trace validation of repeated executions.                          *)
(*                                                                         *)
(* GuardEval.Denote, GuardReport and the driver model GuardCli are         *)
(* functions of (rules, data, flags): the specification has no state that  *)
(* survives an evaluation and no source of choice.  MC_Order names the one *)
(* place where the implementation does have a choice - the iteration order *)
(* of a std HashMap / HashSet, drawn anew per table - and which outputs    *)
(* may show it.  A line of the trace is one command (or library call) with *)
(* its inputs fixed, executed several times: in fresh processes (fresh     *)
(* hash seeds, varied environment and working directory) or repeatedly     *)
(* inside one process with other evaluations in between.  Per repetition   *)
(* the exit code and digests of stdout / stderr are logged: `out` of the   *)
(* bytes (JUnit: elapsed-time attributes removed first), `lines` of the    *)
(* multiset of lines.  Relations per output class:                         *)
(*   bytes    structured outputs, parse-tree, print-json, library results: *)
(*            same exit code, same bytes                                   *)
(*   console  plain-text output: same exit code, same multiset of lines    *)
(*   rulegen  the generated rules text: same exit code, same multiset of   *)
(*            lines                                                        *)
(*   mixed    --print-json inside console text: the JSON documents (`out`) *)
(*            byte for byte, the whole output as a multiset of lines       *)
(* stderr (diagnostics) is compared as a multiset of lines in every class. *)
(***************************************************************************)
EXTENDS Integers, Sequences, FiniteSets, TLC, Json, IOUtils

Rec == ndJsonDeserialize(IOEnv.TRACE)
VARIABLE l

Relate(i, name, holds) ==
  IF holds THEN PrintT(<<"RELATE", i, "ok", name>>) ELSE PrintT(<<"RELATE", i, "broken", name>>)

Same(runs, f) == \A k \in 1 .. Len(runs) : runs[k][f] = runs[1][f]

Step(line) ==
  /\ Len(line.runs) >= 5
  /\ Relate(line.i, "same-exit", Same(line.runs, "exit"))
  /\ line.class \in {"bytes", "mixed"} => Relate(line.i, "same-bytes", Same(line.runs, "out"))
  /\ line.class # "bytes" => Relate(line.i, "same-lines", Same(line.runs, "lines"))
  /\ Relate(line.i, "same-diagnostics", Same(line.runs, "elines"))

Init == l = 1
Next == l <= Len(Rec) /\ Step(Rec[l]) /\ l' = l + 1
Spec == Init /\ [][Next]_l

TraceAccepted ==
  LET d == TLCGet("stats").diameter IN
  IF d - 1 = Len(Rec) THEN TRUE ELSE Print(<<"TRACE-REJECTED at line", d>>, FALSE)
=============================================================================
