SPECIFICATION Spec
INVARIANT CombineLaws
CHECK_DEADLOCK FALSE
