------------------------------- MODULE MC_Files -------------------------------
(***************************************************************************)
(* GuardFiles over every small tree: a directory with up to three entries  *)
(* (files with names of every extension class, or one sub-directory with   *)
(* up to two files), every assignment of modification times.               *)
(*   SameSet     the set of files read does not depend on the order flag   *)
(*   NoRepeat    no file is read twice                                     *)
(*   Sorted      without --last-modified siblings are read in name order   *)
(*   ByTime      with it, in order of modification                         *)
(* Every tree is printed as a REPLAY line with both expected orders; the   *)
(* harness builds the tree on disk and runs the real binary on it.         *)
(***************************************************************************)
EXTENDS GuardFiles, Json

\* names: a.json  b.yaml  c.guard  d.txt  e.JSON  f.template  g.json.bak  B.yml  sub
N(i) == CASE i = 1 -> <<97>> \o X_json
          [] i = 2 -> <<98>> \o X_yaml
          [] i = 3 -> <<99>> \o X_guard
          [] i = 4 -> <<100, 46, 116, 120, 116>>
          [] i = 5 -> <<101, 46, 74, 83, 79, 78>>
          [] i = 6 -> <<102>> \o X_template
          [] i = 7 -> <<103>> \o X_json \o <<46, 98, 97, 107>>
          [] i = 8 -> <<66>> \o X_yml
          [] i = 9 -> <<122>> \o X_ruleset
Names == 1 .. 9
SubName == <<115, 117, 98>>
Root == <<114, 111, 111, 116>>

File(i, t) == [n |-> N(i), k |-> "f", t |-> t, c |-> <<>>]

VARIABLES top, sub, times
\* top: set of names directly in the root; sub: set of names in root/sub (empty = no sub-directory)
Init ==
  /\ top \in {s \in SUBSET Names : Cardinality(s) <= 3}
  /\ sub \in {s \in SUBSET Names : Cardinality(s) <= 2}
  /\ times \in {"asc", "desc"}
Next == UNCHANGED <<top, sub, times>>
Spec == Init /\ [][Next]_<<top, sub, times>>

RECURSIVE SetToSeq(_)
SetToSeq(S) == IF S = {} THEN <<>> ELSE LET x == CHOOSE y \in S : TRUE IN <<x>> \o SetToSeq(S \ {x})
\* modification times: distinct, ascending or descending in the name index
T(i, base) == IF times = "asc" THEN base + i ELSE base + 20 - i
Tree ==
  LET fs == [j \in 1 .. Cardinality(top) |-> File(SetToSeq(top)[j], T(SetToSeq(top)[j], 100))]
      sd == IF sub = {} THEN <<>>
            ELSE <<[n |-> SubName, k |-> "d", t |-> 150,
                    c |-> [j \in 1 .. Cardinality(sub) |-> File(SetToSeq(sub)[j], T(SetToSeq(sub)[j], 200))]]>>
  IN [n |-> Root, k |-> "d", t |-> 1, c |-> fs \o sd]

AsSet(s) == {s[i] : i \in 1 .. Len(s)}
SameSet == /\ AsSet(DataFiles(<<Tree>>, TRUE)) = AsSet(DataFiles(<<Tree>>, FALSE))
           /\ AsSet(RulesFiles(<<Tree>>, TRUE)) = AsSet(RulesFiles(<<Tree>>, FALSE))
NoRepeat == \A b \in BOOLEAN : Len(DataFiles(<<Tree>>, b)) = Cardinality(AsSet(DataFiles(<<Tree>>, b)))
\* exactly the names with a data extension, wherever they are
Selected ==
  LET want == {<<Root, N(i)>> : i \in {j \in top : j \in {1, 2, 6, 8}}} \cup {<<Root, SubName, N(i)>> : i \in {j \in sub : j \in {1, 2, 6, 8}}}
  IN AsSet(DataFiles(<<Tree>>, FALSE)) = want
Sorted ==
  LET d == DataFiles(<<Tree>>, FALSE) IN
  \A i, j \in 1 .. Len(d) : (i < j /\ Len(d[i]) = Len(d[j]) /\ Len(d[i]) = 2) => NameLess(d[i][2], d[j][2])

Emit == PrintT(<<"REPLAY", ToJson([tree |-> Tree,
                                   data_a |-> DataFiles(<<Tree>>, FALSE), data_m |-> DataFiles(<<Tree>>, TRUE),
                                   rules_a |-> RulesFiles(<<Tree>>, FALSE), rules_m |-> RulesFiles(<<Tree>>, TRUE)])>>)
=============================================================================
