SPECIFICATION Spec
INVARIANT BlockLaw
INVARIANT Emit
CHECK_DEADLOCK FALSE
