------------------------------ MODULE TraceTest ------------------------------
(***************************************************************************)
(* C16 (and the `test` half of C06 / C12) - trace validation of            *)
(* `cfn-guard test` runs.                                                  *)
(*                                                                         *)
(* Line: a generated rules file, 1..4 test cases (input document +         *)
(* expectations rule name -> status), the layout (single file / --dir) and *)
(* output format, and what the run showed per test case:                   *)
(*   passed  [name, evaluated]       failed [name, expected, evaluated*]   *)
(*   noexp   names reported as having no expectation                       *)
(* plus the exit status, plus - for the cross-command relation - the       *)
(* per-rule statuses `validate --structured` gave for the same input.      *)
(*                                                                         *)
(* The test command (reporters/test/mod.rs get_by_rules/get_status_result, *)
(* generic.rs, structured.rs) as the specification:                        *)
(*   an expectation for a rule is met iff some definition of that name has *)
(*   the expected non-SKIP status, or all definitions are SKIP when SKIP   *)
(*   is expected; rules without expectation are listed and never counted   *)
(*   as failures; exit 0 iff every expectation is met, 7 if one is not,    *)
(*   an error exit when an input cannot be evaluated.                      *)
(* Each test case is judged against Denote of that input alone (C12).      *)
(***************************************************************************)
EXTENDS TraceCommon

VARIABLE l

SetOf(seq) == {seq[i] : i \in 1 .. Len(seq)}
Names(rules) == {rules[i][1] : i \in 1 .. Len(rules)}
ByName(rules, n) == LET s == SelectSeq(rules, LAMBDA x : x[1] = n) IN [i \in 1 .. Len(s) |-> s[i][2]]
Matched(e, sts) ==
  IF e = "SKIP" THEN \A i \in 1 .. Len(sts) : sts[i] = "SKIP"
  ELSE \E i \in 1 .. Len(sts) : sts[i] = e

ExpOf(exps, n) == LET idx == {i \in 1 .. Len(exps) : exps[i][1] = n} IN
                  IF idx = {} THEN "" ELSE exps[CHOOSE i \in idx : \A j \in idx : j <= i][2]

CaseOk(prog, c, o) ==
  LET d == Denote(prog, c.doc, {}) IN
  IF d.kind # "ok" THEN TRUE      \* an input that cannot be evaluated aborts the run: judged by the exit code
  ELSE
    LET names == Names(d.rules)
        withExp == {n \in names : ExpOf(c.exp, n) # ""}
        passed == {n \in withExp : Matched(ExpOf(c.exp, n), ByName(d.rules, n))}
        failed == withExp \ passed IN
    /\ {o.passed[i][1] : i \in 1 .. Len(o.passed)} = passed
    /\ \A i \in 1 .. Len(o.passed) : o.passed[i][2] = ExpOf(c.exp, o.passed[i][1])
    /\ {o.failed[i][1] : i \in 1 .. Len(o.failed)} = failed
    /\ \A i \in 1 .. Len(o.failed) :
         /\ o.failed[i][2] = ExpOf(c.exp, o.failed[i][1])
         \* the evaluated statuses shown are the statuses of the definitions of that name
         /\ o.failed[i][3] = ByName(d.rules, o.failed[i][1])
    /\ SetOf(o.noexp) = names \ withExp

AnyFailed(line) ==
  \E k \in 1 .. Len(line.cases) :
     LET d == Denote(line.prog, line.cases[k].doc, {}) IN
     d.kind = "ok" /\ \E n \in Names(d.rules) :
        ExpOf(line.cases[k].exp, n) # "" /\ ~Matched(ExpOf(line.cases[k].exp, n), ByName(d.rules, n))
AnyError(line) == \E k \in 1 .. Len(line.cases) : Denote(line.prog, line.cases[k].doc, {}).kind # "ok"

JudgeTest(line) ==
  LET o == line.obs
      err == AnyError(line)
      exitOk == IF err THEN o.exit \notin {0, 7}
                ELSE o.exit = (IF AnyFailed(line) THEN 7 ELSE 0) IN
  /\ Relate(line.i, "exit", exitOk)
  /\ Relate(line.i, "wellformed", err \/ o.wf)
  /\ Relate(line.i, "cases",
            err \/ (Len(o.cases) = Len(line.cases) /\
                    \A k \in 1 .. Len(line.cases) : CaseOk(line.prog, line.cases[k], o.cases[k])))
  \* JUnit: the counters of the report are those of its own entries (one test per expectation, one
  \* failure per unmet expectation), which `cases` has judged against the specification
  /\ ("counts" \in DOMAIN o) =>
       Relate(line.i, "junit-counters",
              /\ o.counts.tests = o.counts.testcases
              /\ o.counts.failures = o.counts.failure_elements
              /\ o.counts.suite_failures = o.counts.failure_elements)
  \* test agrees with validate on the evaluated statuses (both observed from the implementation)
  /\ Relate(line.i, "test-vs-validate",
            err \/ Len(o.cases) # Len(line.cases) \/ \A k \in 1 .. Len(line.cases) :
                     LET v == o.validate[k] IN
                     v.ok => \A i \in 1 .. Len(o.cases[k].failed) :
                                LET n == o.cases[k].failed[i][1] IN
                                SetOf(o.cases[k].failed[i][3]) \subseteq {v.rules[j][2] : j \in {q \in 1 .. Len(v.rules) : v.rules[q][1] = n}})

Init == l = 1
Next == l <= Len(Rec) /\ JudgeTest(Rec[l]) /\ l' = l + 1
Spec == Init /\ [][Next]_l
TraceAccepted ==
  LET d == TLCGet("stats").diameter IN
  IF d - 1 = Len(Rec) THEN TRUE ELSE Print(<<"TRACE-REJECTED at line", d>>, FALSE)
=============================================================================
