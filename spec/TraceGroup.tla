----------------------------- MODULE TraceGroup -----------------------------
(***************************************************************************)
(* C04 / C15 - trace validation of program-transformation relations.       *)
(*                                                                         *)
(* The trace consists of groups: a generated program evaluated on a        *)
(* document (line B), followed by variants of that program evaluated on    *)
(* the same document:                                                      *)
(*  C04  PL lines of one conjunction permuted     PA alternatives permuted *)
(*       DC a clause repeated      PR rules permuted                       *)
(*       DR a rule duplicated under a new name (`dup` names it)            *)
(*  C15  AL a literal right-hand side bound to a let variable              *)
(*       AQ a prefix of a left-hand query bound to a let variable          *)
(*       AR a query right-hand side bound to a let variable                *)
(*       UN an unused variable added    SH an outer definition shadowed    *)
(*       IN a clause replaced by a call of a parameterised rule            *)
(* Every line is judged against Denote.  The relation of the property is   *)
(* evaluated between the implementation's own observations: each variant   *)
(* must give every rule and the file the status line B gave them (as a     *)
(* multiset of (rule, status) when rule order changed), unless one of the  *)
(* two raised an evaluation error (the property excludes those).           *)
(***************************************************************************)
EXTENDS TraceCommon

VARIABLES l, base

NoObs == [kind |-> "none"]

Count(rules, name, st) == Cardinality({i \in 1 .. Len(rules) : rules[i][1] = name /\ rules[i][2] = st})
Names(rules) == {rules[i][1] : i \in 1 .. Len(rules)}
Statuses == {"PASS", "FAIL", "SKIP"}

BagEq(r1, r2) ==
  /\ Names(r1) = Names(r2)
  /\ \A n \in Names(r1) : \A s \in Statuses : Count(r1, n, s) = Count(r2, n, s)

Without(rules, name) == SelectSeq(rules, LAMBDA x : x[1] # name)

Holds(line, b) ==
  LET o == line.obs IN
  IF o.kind # "ok" \/ b.kind # "ok" THEN TRUE        \* an ordering raised an error: excluded
  ELSE CASE line.var \in {"PL", "PA", "DC", "PR"} -> o.file = b.file /\ BagEq(o.rules, b.rules)
         [] line.var = "DR" ->
              /\ o.file = b.file
              /\ BagEq(Without(o.rules, line.dup), b.rules)
              /\ \E i \in 1 .. Len(b.rules) :
                    b.rules[i][1] = line.orig /\ Count(o.rules, line.dup, b.rules[i][2]) = 1
         [] OTHER -> o.file = b.file /\ o.rules = b.rules

Step(line) ==
  /\ Judge(line)
  /\ IF line.var = "B" THEN base' = line.obs
     ELSE /\ Relate(line.i, line.var, Holds(line, base))
          /\ UNCHANGED base

Init == l = 1 /\ base = NoObs
Next == l <= Len(Rec) /\ Step(Rec[l]) /\ l' = l + 1
Spec == Init /\ [][Next]_<<l, base>>

GroupOrder == (l <= Len(Rec) /\ Rec[l].var # "B") => base.kind # "none"

TraceAccepted ==
  LET d == TLCGet("stats").diameter IN
  IF d - 1 = Len(Rec) THEN TRUE ELSE Print(<<"TRACE-REJECTED at line", d>>, FALSE)
=============================================================================
