------------------------------- MODULE MC_Order -------------------------------
(***************************************************************************)
(* C05 on the design: where can the iteration order of a hash table reach  *)
(* the output?                                                             *)
(*                                                                         *)
(* A reporter pipeline is modelled as: items (rule name, payload) arrive   *)
(* in evaluation order (a function of the inputs); a grouping stage keys   *)
(* them by name in a container; the rendering stage walks the container.   *)
(* The container is                                                        *)
(*   "index"  insertion ordered (IndexMap / Vec)  - order = arrival order  *)
(*   "btree"  sorted (BTreeMap / BTreeSet)        - order = key order      *)
(*   "hash"   std HashMap / HashSet               - order = `perm`, chosen *)
(*            per process (and per table) by RandomState                   *)
(* optionally followed by an explicit sort.  `perm` is the only variable:  *)
(* TLC explores every iteration order.  Sites transcribes the code:        *)
(*   file-report   eval_context.rs:1619  FileReport: IndexMap / BTreeSet   *)
(*   summary       summary_table.rs:168  BTreeSet of rule names            *)
(*   test-rules    reporters/test/mod.rs:8 get_by_rules: IndexMap (was a   *)
(*                 HashMap before the fix), walked by the test reporters   *)
(*   console-detail generic_summary.rs:55 / common.rs:341: HashMap by      *)
(*                 resource / rule, detail lines                           *)
(*   cfn-console   reporters/validate/cfn.rs single_line: BTreeMap by        *)
(*                 resource name (HashMap before the fix)                  *)
(*   at-least-one  eval.rs:673 report_at_least_one: HashMap, one key per   *)
(*                 call (called per left-hand value)                       *)
(*   rulegen       rulegen.rs: HashMap of HashMap of HashSet, printed      *)
(*                 sorted (unsorted before the fix)                        *)
(* OrderFree(s) says the rendered sequence does not depend on perm;        *)
(* LinesFree(s) says the multiset of rendered lines does not.  The model   *)
(* checks OrderFree for the sites feeding byte-compared outputs and        *)
(* LinesFree for console ones; the sites where it fails are exactly the    *)
(* places the trace check has to watch (Exposed).                          *)
(***************************************************************************)
EXTENDS Integers, Sequences, FiniteSets, TLC

Keys == {"a", "b", "c"}
Arrival == <<"b", "c", "a", "b">>          \* evaluation order, a name may occur twice

Perms == {p \in [1 .. Cardinality(Keys) -> Keys] : \A k \in Keys : \E i \in DOMAIN p : p[i] = k}

VARIABLE perm
Init == perm \in Perms
Next == UNCHANGED perm
Spec == Init /\ [][Next]_perm

RECURSIVE Dedup(_, _)
Dedup(s, seen) == IF s = <<>> THEN <<>>
                  ELSE IF Head(s) \in seen THEN Dedup(Tail(s), seen)
                  ELSE <<Head(s)>> \o Dedup(Tail(s), seen \cup {Head(s)})
Sorted == <<"a", "b", "c">>

\* the order in which a container yields its keys
Walk(container, p) ==
  CASE container = "index" -> Dedup(Arrival, {})
    [] container = "btree" -> Sorted
    [] container = "hash"  -> p
    [] container = "hash1" -> <<Arrival[1]>>     \* a hash table that never holds more than one key

Sites == {
  [name |-> "file-report",    container |-> "index", sorted |-> FALSE, out |-> "bytes", inline |-> FALSE],
  [name |-> "summary",        container |-> "btree", sorted |-> FALSE, out |-> "bytes", inline |-> FALSE],
  [name |-> "test-rules",     container |-> "index", sorted |-> FALSE, out |-> "bytes", inline |-> FALSE],
  [name |-> "console-detail", container |-> "hash",  sorted |-> FALSE, out |-> "lines", inline |-> FALSE],
  \* cfn.rs single_line: resource blocks; the one-off Code excerpt makes a line depend on the walk
  [name |-> "cfn-console",    container |-> "btree", sorted |-> FALSE, out |-> "lines", inline |-> TRUE],
  [name |-> "at-least-one",   container |-> "hash1", sorted |-> FALSE, out |-> "bytes", inline |-> FALSE],
  \* rulegen also walks a hash set *inside* one printed line (the values of an IN list)
  [name |-> "rulegen",        container |-> "hash",  sorted |-> TRUE,  out |-> "lines", inline |-> TRUE]}

Render(s, p) == IF s.sorted THEN Sorted ELSE Walk(s.container, p)
\* one line per key; an inline site additionally puts the walk order into a line
LinesOf(s, p) == {<<k, IF s.inline THEN Render(s, p) ELSE <<>> >> : k \in Keys}

OrderFree(s) == \A p \in Perms : Render(s, p) = Render(s, perm)
LinesFree(s) == \A p \in Perms : LinesOf(s, p) = LinesOf(s, perm)

\* the sites at which a hash order can reach compared output
Exposed == {s.name : s \in {x \in Sites : (x.out = "bytes" /\ ~OrderFree(x)) \/ (x.out = "lines" /\ ~LinesFree(x))}}

\* design claim: ordered containers keep the file report and the summary table stable, and
\* console detail lines vary in order only
Stable == \A s \in Sites : s.name \in {"file-report", "summary"} => OrderFree(s)
ConsoleLines == \A s \in Sites : s.name = "console-detail" => LinesFree(s)
\* and these are the sites the trace check must watch
Watch == Exposed = {}
\* the design before fix commits <get_by_rules IndexMap> and <rulegen sorted>: a hash table feeding
\* byte-compared output, and one walked inside a printed line, are exposed
OldSites == {[name |-> "test-rules-before", container |-> "hash", sorted |-> FALSE, out |-> "bytes", inline |-> FALSE],
             [name |-> "rulegen-before",    container |-> "hash", sorted |-> FALSE, out |-> "lines", inline |-> TRUE],
             [name |-> "cfn-console-before", container |-> "hash", sorted |-> FALSE, out |-> "lines", inline |-> TRUE]}
OldExposed == \A s \in OldSites : IF s.out = "bytes" THEN \E p \in Perms : Render(s, p) # Render(s, perm)
                                                      ELSE \E p \in Perms : LinesOf(s, p) # LinesOf(s, perm)
=============================================================================
