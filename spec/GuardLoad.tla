------------------------------ MODULE GuardLoad ------------------------------
(***************************************************************************)
(* How documents are written and what a loader must make of them.          *)
(*                                                                         *)
(* Part 1 - serialisation.  Ser(D, fmt, lay) writes the abstract document  *)
(* D as text (a sequence of code points) in one of the formats             *)
(*    "json"   compact JSON        "pretty" indented JSON                  *)
(*    "flow"   YAML flow style     "block"  YAML block style               *)
(* under a layout vector lay = [ind, quote, comments, blanks] and records, *)
(* for every scalar, the offset at which its token starts, hence its       *)
(* (line, column) - what the libyaml-based loader must attach to the value *)
(* (C10).  The document denoted by the text is D itself (C11: a document   *)
(* means the same however it is written).                                  *)
(*                                                                         *)
(* Part 2 - scalar typing (C11).  Plain scalars with a JSON-compatible     *)
(* spelling are typed (integer, float, true/false, null); quoted scalars   *)
(* are strings; every other plain spelling is implementation-defined but   *)
(* all loaders must agree on it.                                           *)
(*                                                                         *)
(* Part 3 - CloudFormation short-form tags: `!Ref x` is {Ref: x}, `!GetAtt *)
(* a.b` is {Fn::GetAtt: a.b}, `!Join [..]` is {Fn::Join: [..]} ...          *)
(***************************************************************************)
EXTENDS GuardValues

NL == 10  SP == 32  DQ == 34  SQ == 39  COMMA == 44  COLON == 58  HASH == 35
LBR == 123  RBR == 125  LSQ == 91  RSQ == 93  DASH == 45

RECURSIVE Spaces(_)
Spaces(n) == IF n <= 0 THEN <<>> ELSE <<SP>> \o Spaces(n - 1)
TAB == 9
RECURSIVE Tabs(_)
Tabs(n) == IF n <= 0 THEN <<>> ELSE <<TAB>> \o Tabs(n - 1)
\* indentation of pretty JSON: lay.ind spaces per level, or (ind = 0) one tab per level as `jq --tab` writes
Indent(lay, depth) == IF lay.ind = 0 THEN Tabs(depth) ELSE Spaces(lay.ind * depth)

Emit(st, cps) == [st EXCEPT !.txt = @ \o cps]
Mark(st, path) == [st EXCEPT !.pos = Append(@, [p |-> path, off |-> Len(st.txt)])]
W0 == [txt |-> <<>>, pos |-> <<>>]

\* decimal text of numbers (milli-unit floats are written with three decimals)
NumText(v) ==
  IF v.t = "int" THEN (IF v.v < 0 THEN <<DASH>> \o Digits(0 - v.v) ELSE Digits(v.v))
  ELSE LET a == IF v.v < 0 THEN 0 - v.v ELSE v.v IN
       (IF v.v < 0 THEN <<DASH>> ELSE <<>>) \o Digits(a \div 1000) \o <<46>> \o
       <<48 + ((a \div 100) % 10), 48 + ((a \div 10) % 10), 48 + (a % 10)>>

\* strings of the universe never need escapes other than the quote itself
Quoted(cp, q) ==
  LET body == [i \in 1 .. Len(cp) |-> cp[i]] IN <<q>> \o body \o <<q>>

IsAlpha(c) == (c >= 65 /\ c <= 90) \/ (c >= 97 /\ c <= 122)
\* a string that may be written as a plain YAML scalar without changing its type: letters
\* only, and none of the words YAML gives a meaning to
Keywords == { <<116,114,117,101>>, <<102,97,108,115,101>>, <<110,117,108,108>>, <<121,101,115>>, <<110,111>>,
              <<111,110>>, <<111,102,102>>, <<121>>, <<110>>, <<84,114,117,101>>, <<70,97,108,115,101>>,
              <<78,117,108,108>>, <<105,110,102>>, <<110,97,110>>, <<78,97,78>>, <<105,110,102,105,110,105,116,121>> }
PlainSafe(cp) == Len(cp) > 0 /\ (\A i \in 1 .. Len(cp) : IsAlpha(cp[i])) /\ cp \notin Keywords

ScalarText(v, fmt, lay) ==
  CASE v.t = "null" -> <<110, 117, 108, 108>>
    [] v.t = "bool" -> IF v.v THEN <<116, 114, 117, 101>> ELSE <<102, 97, 108, 115, 101>>
    [] v.t \in {"int", "flt"} -> NumText(v)
    [] v.t = "str" ->
         IF fmt \in {"json", "pretty"} THEN Quoted(v.v, DQ)
         ELSE IF lay.quote = "plain" /\ PlainSafe(v.v) THEN v.v
         ELSE IF lay.quote = "single" THEN Quoted(v.v, SQ) ELSE Quoted(v.v, DQ)

KeyText(k, fmt, lay) ==
  IF fmt \in {"json", "pretty"} THEN Quoted(k, DQ)
  ELSE IF PlainSafe(k) THEN k ELSE Quoted(k, DQ)

IsScalarV(v) == v.t \notin {"list", "map"}
IsEmptyColl(v) == v.t \in {"list", "map"} /\ Len(v.v) = 0

RECURSIVE Flow(_, _, _, _, _, _), FlowItems(_, _, _, _, _, _, _), Block(_, _, _, _, _), BlockMap(_, _, _, _, _, _), BlockSeq(_, _, _, _, _, _)

\* JSON / YAML flow.  depth only matters for "pretty" (one entry per line, indented)
Flow(v, path, st, fmt, lay, depth) ==
  IF IsScalarV(v) THEN Emit(Mark(st, path), ScalarText(v, fmt, lay))
  ELSE IF Len(v.v) = 0 THEN Emit(st, IF v.t = "map" THEN <<LBR, RBR>> ELSE <<LSQ, RSQ>>)
  ELSE
    LET open == IF v.t = "map" THEN <<LBR>> ELSE <<LSQ>>
        close == IF v.t = "map" THEN <<RBR>> ELSE <<RSQ>>
        nlIn == IF fmt = "pretty" THEN <<NL>> \o Indent(lay, depth + 1) ELSE <<>>
        nlOut == IF fmt = "pretty" THEN <<NL>> \o Indent(lay, depth) ELSE <<>>
        s1 == Emit(st, open \o nlIn)
        s2 == FlowItems(v, path, 1, s1, fmt, lay, depth)
    IN Emit(s2, nlOut \o close)

FlowItems(v, path, i, st, fmt, lay, depth) ==
  IF i > Len(v.v) THEN st
  ELSE
    LET sep == IF i = 1 THEN <<>>
               ELSE IF fmt = "pretty" THEN <<COMMA, NL>> \o Indent(lay, depth + 1)
               ELSE IF fmt = "flow" THEN <<COMMA, SP>> ELSE <<COMMA>>
        s1 == Emit(st, sep)
        s2 == IF v.t = "map"
              THEN Emit(s1, KeyText(v.k[i], fmt, lay) \o (IF fmt = "json" THEN <<COLON>> ELSE <<COLON, SP>>))
              ELSE s1
        sub == IF v.t = "map" THEN Append(path, v.k[i]) ELSE Append(path, Digits(i - 1))
        s3 == Flow(v.v[i], sub, s2, fmt, lay, depth + 1)
    IN FlowItems(v, path, i + 1, s3, fmt, lay, depth)

\* a comment / blank line between two entries of a block collection
Between(st, ind, lay, i) ==
  LET c == IF lay.comments /\ i > 1 THEN Spaces(ind) \o <<HASH, SP, 99>> \o Digits(i) \o <<NL>> ELSE <<>>
      b == IF lay.blanks /\ i > 1 THEN <<NL>> ELSE <<>> IN
  Emit(st, b \o c)

\* YAML block style: the value v is written with the cursor standing right after "key: " or
\* "- " (inline = TRUE) or at the start of a line (top level)
Block(v, path, st, lay, ind) ==
  IF IsScalarV(v) THEN Emit(Emit(Mark(st, path), ScalarText(v, "block", lay)), <<NL>>)
  ELSE IF Len(v.v) = 0 THEN Emit(st, (IF v.t = "map" THEN <<LBR, RBR>> ELSE <<LSQ, RSQ>>) \o <<NL>>)
  ELSE IF v.t = "map" THEN BlockMap(v, path, 1, st, lay, ind)
  ELSE BlockSeq(v, path, 1, st, lay, ind)

\* entries of a map, each on its own line at indentation ind
BlockMap(v, path, i, st, lay, ind) ==
  IF i > Len(v.v) THEN st
  ELSE
    LET s0 == Between(st, ind, lay, i)
        s1 == Emit(s0, Spaces(ind) \o KeyText(v.k[i], "block", lay) \o <<COLON>>)
        x == v.v[i]
        sub == Append(path, v.k[i])
        s2 == IF IsScalarV(x) \/ IsEmptyColl(x) THEN Block(x, sub, Emit(s1, <<SP>>), lay, ind)
              ELSE Block(x, sub, Emit(s1, <<NL>>), lay, ind + lay.ind)
    IN BlockMap(v, path, i + 1, s2, lay, ind)

\* entries of a sequence: "- " at indentation ind; a map item continues at ind + 2
BlockSeq(v, path, i, st, lay, ind) ==
  IF i > Len(v.v) THEN st
  ELSE
    LET s0 == Between(st, ind, lay, i)
        x == v.v[i]
        sub == Append(path, Digits(i - 1))
        s1 == Emit(s0, Spaces(ind) \o <<DASH>>)
        s2 == IF IsScalarV(x) \/ IsEmptyColl(x) THEN Block(x, sub, Emit(s1, <<SP>>), lay, ind)
              \* nested collections start on the next line, indented
              ELSE Block(x, sub, Emit(s1, <<NL>>), lay, ind + lay.ind)
    IN BlockSeq(v, path, i + 1, s2, lay, ind)

\* lay.lead empty lines come before the document (they count for the reported line numbers)
RECURSIVE NLs(_)
NLs(n) == IF n <= 0 THEN <<>> ELSE <<NL>> \o NLs(n - 1)
Lead(lay) == IF "lead" \in DOMAIN lay THEN lay.lead ELSE 0
Ser(D, fmt, lay) ==
  LET w0 == Emit(W0, NLs(Lead(lay))) IN
  IF fmt = "block" THEN Block(D, <<>>, w0, lay, 0)
  ELSE Emit(Flow(D, <<>>, w0, fmt, lay, 0), <<NL>>)

\* (line, column), both 0-based, of offset off in txt (columns count characters)
RECURSIVE LineColFrom(_, _, _, _, _)
LineColFrom(txt, off, i, line, col) ==
  IF i > off THEN <<line, col>>
  ELSE IF txt[i] = NL THEN LineColFrom(txt, off, i + 1, line + 1, 0)
  ELSE LineColFrom(txt, off, i + 1, line, col + 1)
LineCol(txt, off) == LineColFrom(txt, off, 1, 0, 0)

Positions(w) == [i \in 1 .. Len(w.pos) |-> [p |-> w.pos[i].p, lc |-> LineCol(w.txt, w.pos[i].off)]]

---------------------------------------------------------------------------
(* Part 2: typing of a plain scalar by its spelling                         *)

IsDig(c) == c >= 48 /\ c <= 57
AllDigits(cp) == Len(cp) > 0 /\ \A i \in 1 .. Len(cp) : IsDig(cp[i])

\* JSON integer: -?(0|[1-9][0-9]*)
JsonInt(cp) ==
  LET body == IF Len(cp) > 0 /\ cp[1] = DASH THEN Tail(cp) ELSE cp IN
  AllDigits(body) /\ (Len(body) = 1 \/ body[1] # 48)

\* JSON number with a fraction and/or exponent
JsonFloat(cp) ==
  \E d \in 1 .. Len(cp) :
     /\ cp[d] \in {46, 101, 69}
     /\ JsonInt(SubSeq(cp, 1, d - 1))
     /\ LET rest == SubSeq(cp, d, Len(cp)) IN
        \/ (rest[1] = 46 /\ AllDigits(Tail(rest)))
        \/ (rest[1] = 46 /\ \E e \in 2 .. Len(rest) :
               /\ rest[e] \in {101, 69} /\ AllDigits(SubSeq(rest, 2, e - 1))
               /\ LET ex == SubSeq(rest, e + 1, Len(rest))
                      exb == IF Len(ex) > 0 /\ ex[1] \in {43, 45} THEN Tail(ex) ELSE ex IN AllDigits(exb))
        \/ (rest[1] \in {101, 69} /\
               LET ex == Tail(rest)
                   exb == IF Len(ex) > 0 /\ ex[1] \in {43, 45} THEN Tail(ex) ELSE ex IN AllDigits(exb))

\* class of a plain spelling: "int" | "flt" | "bool" | "null" (JSON-compatible, typed) or
\* "other" (implementation-defined, but the same for every loader)
PlainClass(cp) ==
  IF JsonInt(cp) THEN "int"
  ELSE IF JsonFloat(cp) THEN "flt"
  ELSE IF cp \in {<<116, 114, 117, 101>>, <<102, 97, 108, 115, 101>>} THEN "bool"
  ELSE IF cp = <<110, 117, 108, 108>> THEN "null"
  ELSE "other"

\* what a scalar with spelling cp written in `style` must load as: its type tag
\* styles: plain, single, double, literal (`|-`), folded (`>-`), and the explicit core-schema tags
\* `!!str x`, `!!int x`, `!!float x` (the tag decides, where the spelling is a number of that kind)
ExpectedType(cp, style) ==
  CASE style = "plain" -> PlainClass(cp)
    [] style = "tag-int" -> IF JsonInt(cp) THEN "int" ELSE "other"
    [] style = "tag-float" -> IF JsonInt(cp) \/ JsonFloat(cp) THEN "flt" ELSE "other"
    [] OTHER -> "str"

---------------------------------------------------------------------------
(* Part 3: CloudFormation short forms (rules/mod.rs:29-86)                  *)
FnPrefix == <<70, 110, 58, 58>>     \* "Fn::"
LongForm(short) == IF short \in {<<82, 101, 102>>, <<67, 111, 110, 100, 105, 116, 105, 111, 110>>}
                   THEN short ELSE FnPrefix \o short

---------------------------------------------------------------------------
(* JSON string escapes: the characters a string literal of a JSON document *)
(* stands for (RFC 8259 section 7): \" \\ \/ \b \f \n \r \t, \uXXXX, and a   *)
(* \uD800-\uDBFF \uDC00-\uDFFF pair for a character outside the BMP.        *)
HexVal(ch) == IF ch \in 48 .. 57 THEN ch - 48 ELSE IF ch \in 97 .. 102 THEN ch - 87 ELSE ch - 55
Hex4(s, i) == HexVal(s[i]) * 4096 + HexVal(s[i + 1]) * 256 + HexVal(s[i + 2]) * 16 + HexVal(s[i + 3])
IsUEsc(s, i) == i + 5 <= Len(s) /\ s[i] = 92 /\ s[i + 1] = 117
RECURSIVE Unescape(_, _)
Unescape(s, i) ==
  IF i > Len(s) THEN <<>>
  ELSE IF s[i] # 92 THEN <<s[i]>> \o Unescape(s, i + 1)
  ELSE LET e == s[i + 1] IN
       CASE e = 110 -> <<10>> \o Unescape(s, i + 2)
         [] e = 116 -> <<9>> \o Unescape(s, i + 2)
         [] e = 114 -> <<13>> \o Unescape(s, i + 2)
         [] e = 98 -> <<8>> \o Unescape(s, i + 2)
         [] e = 102 -> <<12>> \o Unescape(s, i + 2)
         [] e = 117 ->
              LET h == Hex4(s, i + 2) IN
              IF h \in 55296 .. 56319 /\ IsUEsc(s, i + 6) /\ Hex4(s, i + 8) \in 56320 .. 57343
              THEN <<65536 + (h - 55296) * 1024 + (Hex4(s, i + 8) - 56320)>> \o Unescape(s, i + 12)
              ELSE <<h>> \o Unescape(s, i + 6)
         [] OTHER -> <<e>> \o Unescape(s, i + 2)
========================================================================
