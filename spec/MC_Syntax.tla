------------------------------ MODULE MC_Syntax ------------------------------
(***************************************************************************)
(* C14: the concrete-syntax choices that must not change a rules file's    *)
(* meaning.  A style vector fixes, per token class, which documented       *)
(* synonym is written and how the text is laid out:                        *)
(*   upper     keyword case (when/WHEN, in/IN, exists/EXISTS, is_*/IS_*,   *)
(*             some/SOME, keys/KEYS, this/THIS, empty/EMPTY)               *)
(*   or        or / OR / |OR|          not    not / NOT / !                *)
(*   assign    = / :=                  quotes double / single              *)
(*   index     [n] / .n                this   explicit leading `this.`     *)
(*   indent    2 / 4 / 1 (tab: tabs)   comments  # comments between and    *)
(*   blanks    blank lines, trailing spaces       after clauses            *)
(*   breaks    line breaks inside lists, filters and or-lines              *)
(*   sep       the blank between tokens: one space / a tab / two spaces    *)
(*   crlf      lines end with CR LF                                        *)
(*   tq        type block written as Resources.*[ Type == 'X' ] { .. }     *)
(*   mix       every token occurrence chooses its own synonym (seed)       *)
(* The specification's meaning of a program (Denote) is a function of the  *)
(* AST alone, so all renderings of one AST must parse to the same tree and *)
(* give the same verdicts.  TLC enumerates the style space: every          *)
(* single-class deviation, every pair of classes, and the full product     *)
(* (printed as STYLE lines; the harness renders generated ASTs under them).*)
(***************************************************************************)
EXTENDS Integers, Sequences, FiniteSets, TLC, Json

Canon == [upper |-> FALSE, or |-> 0, not |-> 0, assign |-> FALSE, single |-> FALSE, dot |-> FALSE,
          this |-> FALSE, indent |-> 2, tab |-> FALSE, comments |-> FALSE, blanks |-> FALSE, breaks |-> FALSE, sep |-> 0, crlf |-> FALSE, tq |-> FALSE]

Space == [upper : BOOLEAN, or : 0 .. 2, not : 0 .. 2, assign : BOOLEAN, single : BOOLEAN, dot : BOOLEAN,
          this : BOOLEAN, indent : {1, 2, 4}, tab : BOOLEAN, comments : BOOLEAN, blanks : BOOLEAN, breaks : BOOLEAN, sep : 0 .. 2, crlf : BOOLEAN, tq : BOOLEAN]

Classes == DOMAIN Canon
Differs(s) == {c \in Classes : s[c] # Canon[c]}

VARIABLE s
Init == s \in Space
Next == UNCHANGED s
Spec == Init /\ [][Next]_s

\* how far a style is from the canonical one: 1 = a single class deviates, 2 = a pair, ...
Emit == PrintT(<<"STYLE", Cardinality(Differs(s)), ToJson(s)>>)
\* every class is exercised alone, in both / all of its values
ASSUME \A c \in Classes : \A v \in {x[c] : x \in Space} : \E t \in Space : t[c] = v /\ Differs(t) \subseteq {c}
=============================================================================
