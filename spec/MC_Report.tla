------------------------------ MODULE MC_Report ------------------------------
(***************************************************************************)
(* C09: reports of several rules files against one data file are the union *)
(* of the individual reports (FileReport::combine, Status::and), and the   *)
(* status law survives combination.  Exhaustive over 1..3 abstract reports *)
(* over two rule names each.                                               *)
(***************************************************************************)
EXTENDS GuardReport

Names == {"a", "b"}
Status3 == {"PASS", "FAIL", "SKIP"}

\* the report of a rules file whose (distinctly named) rules have the given statuses
RuleItem(n) == Item("rule", n, "", "", <<>>, <<>>, <<>>, <<>>, <<>>)
ReportOf(f, tag) ==
  LET failed == {n \in DOMAIN f : f[n] = "FAIL"}
      seqOf(S) == IF S = {} THEN <<>>
                  ELSE IF Cardinality(S) = 1 THEN <<RuleItem(tag \o (CHOOSE n \in S : TRUE))>>
                  ELSE <<RuleItem(tag \o "a"), RuleItem(tag \o "b")>>
      rep == [status |-> "SKIP", compliant |-> {tag \o n : n \in {m \in DOMAIN f : f[m] = "PASS"}},
              na |-> {tag \o n : n \in {m \in DOMAIN f : f[m] = "SKIP"}}, nc |-> seqOf(failed)]
  IN [rep EXCEPT !.status = IF failed # {} THEN "FAIL" ELSE IF rep.compliant # {} THEN "PASS" ELSE "SKIP"]

Files == UNION {[S -> Status3] : S \in (SUBSET Names)}

VARIABLES f1, f2, f3
Init == f1 \in Files /\ f2 \in Files /\ f3 \in Files
Next == UNCHANGED <<f1, f2, f3>>
Spec == Init /\ [][Next]_<<f1, f2, f3>>

R1 == ReportOf(f1, "x")  R2 == ReportOf(f2, "y")  R3 == ReportOf(f3, "z")
Rules(f, tag) == LET ns == DOMAIN f IN
  IF ns = {} THEN <<>> ELSE IF Cardinality(ns) = 1 THEN <<<<tag \o (CHOOSE n \in ns : TRUE), f[CHOOSE n \in ns : TRUE]>>>>
  ELSE <<<<tag \o "a", f["a"]>>, <<tag \o "b", f["b"]>>>>

CombineLaws ==
  LET c12 == Combine(R1, R2)
      c == Combine(c12, R3)
      all == Rules(f1, "x") \o Rules(f2, "y") \o Rules(f3, "z") IN
  \* the single reports obey the laws ...
  /\ StatusLaw(R1) /\ PartitionLaw(R1, Rules(f1, "x"))
  \* ... and so does the union
  /\ StatusLaw(c)
  /\ PartitionLaw(c, all)
  /\ c.compliant = R1.compliant \cup R2.compliant \cup R3.compliant
  /\ c.nc = R1.nc \o R2.nc \o R3.nc
  \* the combined status does not depend on the order in which the files are combined
  /\ Combine(Combine(R3, R1), R2).status = c.status
=============================================================================
