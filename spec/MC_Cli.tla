------------------------------- MODULE MC_Cli -------------------------------
(***************************************************************************)
(* Model checking the validate driver: every scenario of up to NR rules    *)
(* files x ND data files (each kind, every outcome assignment, every path) *)
(* is run through the GuardCli machine step by step.                       *)
(*   ExitInTable   C06: the exit code is one the property allows           *)
(*   BatchIsUnionOfPairs  C12: unless the run aborts on an error, exactly  *)
(*                 the parsed-rules x data pairs are evaluated, each once, *)
(*                 with the outcome of that pair alone                     *)
(*   PathsAgree    C07: the three code paths agree on the exit code except *)
(*                 in the one situation the property leaves open           *)
(* Each terminal state is printed as a REPLAY line (scenario + predicted   *)
(* exit code) for the harness to materialise with real files.              *)
(***************************************************************************)
EXTENDS GuardCli, Json

CONSTANTS NR, ND

VARIABLES scn, s
vars == <<scn, s>>

Kinds == {"ok", "broken", "empty"}
Loads == {"ok", "bad"}
Evs == {"PASS", "FAIL", "SKIP", "ERR"}
Paths == {"plain", "structured", "junit"}

SeqsUpTo(S, n) == UNION {[1 .. k -> S] : k \in 1 .. n}

Init ==
  /\ \E rs \in SeqsUpTo(Kinds, NR), ds \in SeqsUpTo(Loads, ND), p \in Paths, miss \in {FALSE}, cf \in {FALSE, TRUE} :
       \E ev \in [(1 .. Len(rs)) \X (1 .. Len(ds)) -> Evs] :
          \* outcomes only matter for pairs that can be evaluated
          /\ \A q \in DOMAIN ev : (rs[q[1]] # "ok" \/ ds[q[2]] # "ok") => ev[q] = "SKIP"
          /\ scn = [rules |-> rs, data |-> ds, ev |-> ev, missing |-> miss, conflict |-> cf, path |-> p]
  /\ s = InitState

Next == ~s.done /\ s' = Step(scn, s) /\ UNCHANGED scn
Spec == Init /\ [][Next]_vars

ExitInTable == s.done => s.exit \in ExitAllowed(scn)

BatchIsUnionOfPairs ==
  (s.done /\ ~s.aborted) =>
     /\ {s.pairs[i] : i \in 1 .. Len(s.pairs)} = PairsEvaluated(scn)
     /\ Len(s.pairs) = Cardinality(PairsEvaluated(scn))

ErrorsAbort == (s.done /\ AnyError(scn)) => s.aborted

PathsAgree ==
  s.done =>
    LET other(p) == Run([scn EXCEPT !.path = p]).exit IN
    \A p \in Paths : \/ other(p) = s.exit
                     \/ (AnyBroken(scn) /\ AnyFail(scn) /\ ~AnyError(scn))
                     \* a parameter clash is only met by the plain path when a pair is evaluated
                     \/ (scn.conflict /\ OkPairs(scn) = {})

\* the event fold of spec/apalache/ExitFold.tla (whose inductive invariant Apalache checks for any
\* number of files), computed on the scenario: the driver machine agrees with it
RECURSIVE PlainFold(_, _, _)
PlainFold(sc, r, e) ==
  IF r > Len(sc.rules) THEN e
  ELSE IF sc.rules[r] = "broken" THEN PlainFold(sc, r + 1, ExitParse)
  ELSE IF sc.rules[r] = "ok" /\ \E d \in 1 .. Len(sc.data) : sc.ev[<<r, d>>] = "FAIL" THEN PlainFold(sc, r + 1, ExitFail)
  ELSE PlainFold(sc, r + 1, e)
FoldExit(sc) ==
  CASE sc.path = "plain" -> PlainFold(sc, 1, ExitOk)
    [] sc.path = "structured" -> IF AnyFail(sc) THEN ExitFail ELSE IF AnyBroken(sc) THEN ExitParse ELSE ExitOk
    [] sc.path = "junit" -> IF AnyBroken(sc) THEN ExitParse ELSE IF AnyFail(sc) THEN ExitFail ELSE ExitOk
FoldAgrees == (s.done /\ ~AnyError(scn)) => s.exit = FoldExit(scn)

Emit == s.done => PrintT(<<"REPLAY", ToJson([rules |-> scn.rules, data |-> scn.data,
                                             ev |-> [i \in 1 .. Len(scn.rules) |-> [j \in 1 .. Len(scn.data) |-> scn.ev[<<i, j>>]]],
                                             conflict |-> scn.conflict, path |-> scn.path,
                                             exit |-> s.exit, aborted |-> s.aborted,
                                             pairs |-> s.pairs])>>)
=============================================================================
