------------------------------- MODULE MC_Block -------------------------------
(***************************************************************************)
(* C01 / C02: how a block clause combines the statuses of the values it    *)
(* ranges over (eval.rs eval_guard_block_clause, eval_type_block_clause).  *)
(*                                                                         *)
(* A document holds a list `items` of up to MaxN elements; the element     *)
(* decides how the block body comes out for it:                            *)
(*   P  {m: "x", v: 1}   body PASSes      F  {m: "x", v: 2}  body FAILs    *)
(*   S  {m: "skip"}      the body's when guard is not met: SKIP            *)
(*   U  {n: 0}           the query part `sub` does not resolve             *)
(* and the block is written in every form                                  *)
(*   query block      items[*].sub { when m != "skip" { v == 1 } }         *)
(*   some block       some items[*].sub { .. }                             *)
(*   !empty block     items[*].sub !empty { .. }   (and with some)         *)
(*   type block       Resources.*[ Type == .. ] over the same elements     *)
(* BlockLaw states the documented combination:                             *)
(*   all : FAIL if some value FAILs or does not resolve, else PASS if some *)
(*         value PASSes, else SKIP;   no value at all: FAIL                *)
(*   some: PASS if some value PASSes, else FAIL if some value FAILs or     *)
(*         does not resolve, else SKIP;   no value at all: FAIL            *)
(* Every state is printed as a REPLAY line {prog, doc, expect} and         *)
(* executed against the implementation.                                    *)
(***************************************************************************)
EXTENDS GuardEval, Json, IOUtils

MaxN == IF "MAXN" \in DOMAIN IOEnv THEN atoi(IOEnv.MAXN) ELSE 3

km == <<109>>  kv == <<118>>  kn == <<110>>  ksub == <<115, 117, 98>>  kitems == <<105, 116, 101, 109, 115>>
sx == <<120>>  sskip == <<115, 107, 105, 112>>
I(n) == [t |-> "int", v |-> n]
S(cp) == [t |-> "str", v |-> cp]
L(xs) == [t |-> "list", v |-> xs]
M(ks, vs) == [t |-> "map", k |-> ks, v |-> vs]
K(k) == [p |-> "key", k |-> k]
Gac(q, op, on, rhs) == [c |-> "gac", q |-> q, all |-> TRUE, neg |-> FALSE, op |-> op, on |-> on, rhs |-> rhs]
Val(v) == [r |-> "val", v |-> v]

Elem(s) == CASE s = "P" -> M(<<ksub>>, <<M(<<km, kv>>, <<S(sx), I(1)>>)>>)
             [] s = "F" -> M(<<ksub>>, <<M(<<km, kv>>, <<S(sx), I(2)>>)>>)
             [] s = "S" -> M(<<ksub>>, <<M(<<km>>, <<S(sskip)>>)>>)
             [] s = "U" -> M(<<kn>>, <<I(0)>>)
Kinds == {"P", "F", "S", "U"}
Doc(es) == M(<<kitems>>, <<L([i \in 1 .. Len(es) |-> Elem(es[i])])>>)

Body == <<<<[c |-> "when", w |-> <<<<Gac(<<K(km)>>, "eq", TRUE, <<Val(S(sskip))>>)>>>>, lets |-> <<>>,
             b |-> <<<<Gac(<<K(kv)>>, "eq", FALSE, <<Val(I(1))>>)>>>>]>>>>
Block(all, ne) == [c |-> "block", q |-> <<K(kitems), [p |-> "idx"], K(ksub)>>, all |-> all, ne |-> ne, lets |-> <<>>, b |-> Body]
Prog(all, ne) == [lets |-> <<>>, prules |-> <<>>, rules |-> <<[n |-> "r", w |-> <<>>, lets |-> <<>>, b |-> <<<<Block(all, ne)>>>>]>>]

\* ---- the type-block form: resources of type T::A::B (P / F / S as above) and of another type (N)
TypeName == "T::A::B"
TypeCp == <<84, 58, 58, 65, 58, 58, 66>>
OtherCp == <<79, 58, 58, 88>>
kRes == <<82, 101, 115, 111, 117, 114, 99, 101, 115>>
kType == <<84, 121, 112, 101>>
TRes(s) == CASE s = "P" -> M(<<kType, km, kv>>, <<S(TypeCp), S(sx), I(1)>>)
            [] s = "F" -> M(<<kType, km, kv>>, <<S(TypeCp), S(sx), I(2)>>)
            [] s = "S" -> M(<<kType, km>>, <<S(TypeCp), S(sskip)>>)
            [] s = "U" -> M(<<kType, kn>>, <<S(OtherCp), I(0)>>)      \* U stands for: another type
ResName(i) == <<114, 48 + i>>
TDoc(xs) == M(<<kRes>>, <<M([i \in 1 .. Len(xs) |-> ResName(i)], [i \in 1 .. Len(xs) |-> TRes(xs[i])])>>)
TProg == [lets |-> <<>>, prules |-> <<>>,
          rules |-> <<[n |-> "r", w |-> <<>>, lets |-> <<>>,
                       b |-> <<<<[c |-> "type", tn |-> TypeName, tnc |-> TypeCp, w |-> <<>>, lets |-> <<>>, b |-> Body]>>>>]>>]

VARIABLES es, all, ne, form
Init == /\ es \in UNION {[1 .. n -> Kinds] : n \in 0 .. MaxN}
        /\ all \in BOOLEAN /\ ne \in BOOLEAN
        /\ form \in {"block", "type"}
        \* a type block has no quantifier; an empty Resources map is an error of its own (C14 finding)
        /\ form = "type" => (all /\ ~ne /\ Len(es) > 0)
Next == UNCHANGED <<es, all, ne, form>>
Spec == Init /\ [][Next]_<<es, all, ne, form>>

Has(s) == \E i \in 1 .. Len(es) : es[i] = s
Want ==
  IF Len(es) = 0 THEN "FAIL"
  ELSE IF all THEN (IF Has("F") \/ Has("U") THEN "FAIL" ELSE IF Has("P") THEN "PASS" ELSE "SKIP")
  ELSE (IF Has("P") THEN "PASS" ELSE IF Has("F") \/ Has("U") THEN "FAIL" ELSE "SKIP")

\* type block: the resources of the type combine like the values of an all-block; none of the type: SKIP
TWant == IF ~(Has("P") \/ Has("F") \/ Has("S")) THEN "SKIP"
         ELSE IF Has("F") THEN "FAIL" ELSE IF Has("P") THEN "PASS" ELSE "SKIP"
TheProg == IF form = "type" THEN TProg ELSE Prog(all, ne)
TheDoc == IF form = "type" THEN TDoc(es) ELSE Doc(es)
D == Denote(TheProg, TheDoc, {})
\* `!empty` on the block query only adds the emptiness test, which is implied whenever a value
\* resolves; it does not change how the values combine
BlockLaw == D.kind = "ok" /\ (ne = FALSE => D.rules[1][2] = (IF form = "type" THEN TWant ELSE Want))
NotEmptySame == Denote(Prog(all, TRUE), Doc(es), {}).kind = "ok"

Emit == PrintT(<<"REPLAY", ToJson([prog |-> TheProg, doc |-> TheDoc,
                                   expect |-> IF D.kind = "ok" THEN [kind |-> "ok", file |-> D.file, rules |-> D.rules]
                                              ELSE [kind |-> "err"]])>>)
=============================================================================
