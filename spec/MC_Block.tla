------------------------------- MODULE MC_Block -------------------------------
(***************************************************************************)
(* C01 / C02: how a block clause combines the statuses of the values it    *)
(* ranges over (eval.rs eval_guard_block_clause, eval_type_block_clause).  *)
(*                                                                         *)
(* A document holds a list `items` of up to MaxN elements; the element     *)
(* decides how the block body comes out for it:                            *)
(*   P  {m: "x", v: 1}   body PASSes      F  {m: "x", v: 2}  body FAILs    *)
(*   S  {m: "skip"}      the body's when guard is not met: SKIP            *)
(*   U  {n: 0}           the query part `sub` does not resolve             *)
(* and the block is written in every form                                  *)
(*   query block      items[*].sub { when m != "skip" { v == 1 } }         *)
(*   some block       some items[*].sub { .. }                             *)
(*   !empty block     items[*].sub !empty { .. }   (and with some)         *)
(*   type block       Resources.*[ Type == .. ] over the same elements     *)
(* BlockLaw states the documented combination:                             *)
(*   all : FAIL if some value FAILs or does not resolve, else PASS if some *)
(*         value PASSes, else SKIP;   no value at all: FAIL                *)
(*   some: PASS if some value PASSes, else FAIL if some value FAILs or     *)
(*         does not resolve, else SKIP;   no value at all: FAIL            *)
(* Every state is printed as a REPLAY line {prog, doc, expect} and         *)
(* executed against the implementation.                                    *)
(***************************************************************************)
EXTENDS GuardEval, Json, IOUtils

MaxN == IF "MAXN" \in DOMAIN IOEnv THEN atoi(IOEnv.MAXN) ELSE 3

km == <<109>>  kv == <<118>>  kn == <<110>>  ksub == <<115, 117, 98>>  kitems == <<105, 116, 101, 109, 115>>
sx == <<120>>  sskip == <<115, 107, 105, 112>>
I(n) == [t |-> "int", v |-> n]
S(cp) == [t |-> "str", v |-> cp]
L(xs) == [t |-> "list", v |-> xs]
M(ks, vs) == [t |-> "map", k |-> ks, v |-> vs]
K(k) == [p |-> "key", k |-> k]
Gac(q, op, on, rhs) == [c |-> "gac", q |-> q, all |-> TRUE, neg |-> FALSE, op |-> op, on |-> on, rhs |-> rhs]
Val(v) == [r |-> "val", v |-> v]

Elem(s) == CASE s = "P" -> M(<<ksub>>, <<M(<<km, kv>>, <<S(sx), I(1)>>)>>)
             [] s = "F" -> M(<<ksub>>, <<M(<<km, kv>>, <<S(sx), I(2)>>)>>)
             [] s = "S" -> M(<<ksub>>, <<M(<<km>>, <<S(sskip)>>)>>)
             [] s = "U" -> M(<<kn>>, <<I(0)>>)
Kinds == {"P", "F", "S", "U"}
Doc(es) == M(<<kitems>>, <<L([i \in 1 .. Len(es) |-> Elem(es[i])])>>)

Body == <<<<[c |-> "when", w |-> <<<<Gac(<<K(km)>>, "eq", TRUE, <<Val(S(sskip))>>)>>>>, lets |-> <<>>,
             b |-> <<<<Gac(<<K(kv)>>, "eq", FALSE, <<Val(I(1))>>)>>>>]>>>>
Block(all, ne) == [c |-> "block", q |-> <<K(kitems), [p |-> "idx"], K(ksub)>>, all |-> all, ne |-> ne, lets |-> <<>>, b |-> Body]
Prog(all, ne) == [lets |-> <<>>, prules |-> <<>>, rules |-> <<[n |-> "r", w |-> <<>>, lets |-> <<>>, b |-> <<<<Block(all, ne)>>>>]>>]

VARIABLES es, all, ne
Init == /\ es \in UNION {[1 .. n -> Kinds] : n \in 0 .. MaxN}
        /\ all \in BOOLEAN /\ ne \in BOOLEAN
Next == UNCHANGED <<es, all, ne>>
Spec == Init /\ [][Next]_<<es, all, ne>>

Has(s) == \E i \in 1 .. Len(es) : es[i] = s
Want ==
  IF Len(es) = 0 THEN "FAIL"
  ELSE IF all THEN (IF Has("F") \/ Has("U") THEN "FAIL" ELSE IF Has("P") THEN "PASS" ELSE "SKIP")
  ELSE (IF Has("P") THEN "PASS" ELSE IF Has("F") \/ Has("U") THEN "FAIL" ELSE "SKIP")

D == Denote(Prog(all, ne), Doc(es), {})
\* `!empty` on the block query only adds the emptiness test, which is implied whenever a value
\* resolves; it does not change how the values combine
BlockLaw == D.kind = "ok" /\ (ne = FALSE => D.rules[1][2] = Want)
NotEmptySame == Denote(Prog(all, TRUE), Doc(es), {}).kind = "ok"

Emit == PrintT(<<"REPLAY", ToJson([prog |-> Prog(all, ne), doc |-> Doc(es),
                                   expect |-> IF D.kind = "ok" THEN [kind |-> "ok", file |-> D.file, rules |-> D.rules]
                                              ELSE [kind |-> "err"]])>>)
=============================================================================
