SPECIFICATION Spec
CONSTANT R = {a, b, c}
INVARIANT CacheCoherent
INVARIANT NoReentry
INVARIANT ResultIndependentOfSchedule
INVARIANT StackMatchesFrames
CHECK_DEADLOCK FALSE
