----------------------------- MODULE TraceRulegen -----------------------------
(***************************************************************************)
(* C19 - trace validation of `cfn-guard rulegen`.                          *)
(* One line per template: the template (abstract document), what the real  *)
(* command printed - read back through the real parser into                *)
(*   out.rules = <<[type, rule, rulecp, var, varcp, props: <<[p, op, vals]>>]>>  *)
(* (out.odd counts anything that is not of the documented shape) - the     *)
(* statuses run_checks gives the printed rules on the template (obs) and   *)
(* on templates with one scalar property value changed to a value no       *)
(* resource of that type has for that property (muts).                     *)
(* Relations:                                                              *)
(*   terminates     the command returned (no panic)                        *)
(*   parses         what was printed is accepted by the parser             *)
(*   shape          only the documented let / rule / clause shapes (odd = 0)*)
(*   one-rule-per-type   the rules are those of RGTypes(template)          *)
(*   names          rule and variable names follow RGName / RGVarName      *)
(*   properties     per rule: one clause per property of RGPropNames, ==   *)
(*                  for a single value and IN for several, values RGVals   *)
(*   self-validates the template PASSes every printed rule                 *)
(*   detects-change the rule of the type FAILs on every mutated template   *)
(* JUDGE lines: the observed statuses against Denote(RGAst(template)).     *)
(* RGEXPECT lines: what the specification itself says about the template   *)
(* (does Denote of the printed design pass / notice the change).           *)
(***************************************************************************)
EXTENDS GuardRulegen, TLC, Json, IOUtils

Rec == ndJsonDeserialize(IOEnv.TRACE)
VARIABLE l

Relate(i, name, holds) ==
  IF holds THEN PrintT(<<"RELATE", i, "ok", name>>) ELSE PrintT(<<"RELATE", i, "broken", name>>)

RuleIdx(line) == 1 .. Len(line.out.rules)
TypesPrinted(line) == {line.out.rules[j].type : j \in RuleIdx(line)}
RuleFor(line, T) == line.out.rules[CHOOSE j \in RuleIdx(line) : line.out.rules[j].type = T]
NamesOf(line) == [T \in TypesPrinted(line) |-> [rule |-> RuleFor(line, T).rule, var |-> RuleFor(line, T).var]]

OneRulePerType(line) ==
  /\ TypesPrinted(line) = RGTypes(line.doc)
  /\ Len(line.out.rules) = Cardinality(RGTypes(line.doc))

NamesOk(line) == \A j \in RuleIdx(line) :
  LET r == line.out.rules[j] IN r.rulecp = RGName(r.type) /\ r.varcp = RGVarName(r.type)

PropsOk(doc, r) ==
  LET ix == 1 .. Len(r.props) IN
  /\ Len(r.props) = Cardinality(RGPropNames(doc, r.type))
  /\ {r.props[j].p : j \in ix} = RGPropNames(doc, r.type)
  /\ \A j \in ix :
       LET x == r.props[j]
           want == RGVals(doc, r.type, x.p) IN
       /\ Len(x.vals) = Len(want)
       /\ x.op = (IF Len(want) > 1 THEN "in" ELSE "eq")
       /\ \A a \in 1 .. Len(want) : \E g \in 1 .. Len(x.vals) : RGSameVal(want[a], x.vals[g])
       /\ \A g \in 1 .. Len(x.vals) : \E a \in 1 .. Len(want) : RGSameVal(want[a], x.vals[g])
PropertiesOk(line) == \A j \in RuleIdx(line) : PropsOk(line.doc, line.out.rules[j])

\* observed statuses against the denotation of the printed structure
AgreesBag(obs, d) ==
  CASE obs.kind = "ok" -> d.kind = "ok" /\ d.file = obs.file /\ d.rules = obs.rules
    [] obs.kind = "err" -> d.kind = "err"
    [] OTHER -> FALSE

JudgeRG(i, tag, obs, d) ==
  IF AgreesBag(obs, d) THEN PrintT(<<"JUDGE", i, "ok", tag>>)
  ELSE PrintT(<<"JUDGE", i, "mismatch", tag, ToJson(IF d.kind = "ok" THEN [kind |-> "ok", file |-> d.file, rules |-> d.rules] ELSE d)>>)

Failed(obs, name) == obs.kind = "ok" /\ \E j \in 1 .. Len(obs.rules) : obs.rules[j][1] = name /\ obs.rules[j][2] = "FAIL"

Structured(line) ==
  line.out.parses /\ line.out.odd = 0 /\ OneRulePerType(line) /\ NamesOk(line) /\ PropertiesOk(line)

Mut(line, ast, nm, j) ==
  LET mu == line.muts[j]
      d == Denote(ast, mu.doc, {}) IN
  /\ JudgeRG(line.i, "mut", mu.obs, d)
  /\ PrintT(<<"RGEXPECT", line.i, "detects-change", d.kind = "ok" /\ RGStatusOf(d, nm[mu.type].rule) = "FAIL">>)
  /\ Relate(line.i, "detects-change", Failed(mu.obs, nm[mu.type].rule))

Step(line) ==
  /\ Relate(line.i, "terminates", line.out.kind # "panic")
  /\ IF line.out.kind # "ok" THEN PrintT(<<"RGERROR", line.i, line.out.kind>>)
     ELSE IF "empty" \in DOMAIN line.out THEN Relate(line.i, "one-rule-per-type", RGTypes(line.doc) = {})
     ELSE
       /\ Relate(line.i, "parses", line.out.parses)
       /\ line.out.parses =>
            /\ Relate(line.i, "shape", line.out.odd = 0)
            /\ Relate(line.i, "one-rule-per-type", OneRulePerType(line))
            /\ Relate(line.i, "names", NamesOk(line))
            /\ Relate(line.i, "properties", PropertiesOk(line))
            /\ Relate(line.i, "self-validates", line.obs.kind = "ok" /\ \A j \in 1 .. Len(line.obs.rules) : line.obs.rules[j][2] = "PASS")
            /\ IF Structured(line)
               THEN LET nm == NamesOf(line)
                        ast == RGAstFrom(line.out.rules)
                        d == Denote(ast, line.doc, {}) IN
                    /\ JudgeRG(line.i, "self", line.obs, d)
                    /\ PrintT(<<"RGEXPECT", line.i, "self-validates", RGAllPass(d), RGUniform(line.doc), RGNoListAmongSeveral(line.doc)>>)
                    /\ \A j \in 1 .. Len(line.muts) : Mut(line, ast, nm, j)
               ELSE \A j \in 1 .. Len(line.muts) :
                      Relate(line.i, "detects-change",
                             \E k \in RuleIdx(line) : line.out.rules[k].type = line.muts[j].type
                                                        /\ Failed(line.muts[j].obs, line.out.rules[k].rule))

Init == l = 1
Next == l <= Len(Rec) /\ Step(Rec[l]) /\ l' = l + 1
Spec == Init /\ [][Next]_l

TraceAccepted ==
  LET d == TLCGet("stats").diameter IN
  IF d - 1 = Len(Rec) THEN TRUE ELSE Print(<<"TRACE-REJECTED at line", d>>, FALSE)
=============================================================================
