------------------------------ MODULE GuardFiles ------------------------------
(***************************************************************************)
(* Which files a `validate` run reads, and in which order                  *)
(* (commands/validate.rs execute + commands/files.rs walk_dir).            *)
(*                                                                         *)
(* An entry is [n |-> name (code points), k |-> "f" | "d", t |-> time of   *)
(* last modification, c |-> <<entries>>].  An argument of -d / -r is an    *)
(* entry: a file or a directory.                                           *)
(*   data  every argument is walked; a file - given directly or found -    *)
(*         is read iff its name ends with .yaml .yml .json .jsn .template  *)
(*   rules a file given directly is taken whatever its name; a directory   *)
(*         is walked and the files ending with .guard / .ruleset are taken *)
(*   order the entries of a directory are visited sorted by name (bytes)   *)
(*         or, with --last-modified, by modification time; directories are *)
(*         descended when they are met (depth first); arguments in the     *)
(*         order given                                                     *)
(* A path is the sequence of names from the argument down.                 *)
(***************************************************************************)
EXTENDS Integers, Sequences, FiniteSets, TLC

RECURSIVE FCmpAt(_, _, _)
FCmpAt(a, b, i) ==
  IF i > Len(a) THEN (IF i > Len(b) THEN 0 ELSE -1)
  ELSE IF i > Len(b) THEN 1
  ELSE IF a[i] < b[i] THEN -1
  ELSE IF a[i] > b[i] THEN 1
  ELSE FCmpAt(a, b, i + 1)
NameLess(a, b) == FCmpAt(a, b, 1) < 0
EndsWith(name, ext) == Len(ext) <= Len(name) /\ SubSeq(name, Len(name) - Len(ext) + 1, Len(name)) = ext

X_yaml == <<46, 121, 97, 109, 108>>
X_yml  == <<46, 121, 109, 108>>
X_json == <<46, 106, 115, 111, 110>>
X_jsn  == <<46, 106, 115, 110>>
X_template == <<46, 116, 101, 109, 112, 108, 97, 116, 101>>
X_guard == <<46, 103, 117, 97, 114, 100>>
X_ruleset == <<46, 114, 117, 108, 101, 115, 101, 116>>
DataExts == {X_yaml, X_yml, X_json, X_jsn, X_template}
RuleExts == {X_guard, X_ruleset}
IsData(name) == \E e \in DataExts : EndsWith(name, e)
IsRules(name) == \E e \in RuleExts : EndsWith(name, e)

\* the children of a directory in visiting order
Ordered(c, byTime) ==
  IF byTime THEN SortSeq(c, LAMBDA a, b : a.t < b.t) ELSE SortSeq(c, LAMBDA a, b : NameLess(a.n, b.n))

\* all files under an entry, in visiting order, as paths
RECURSIVE Walk(_, _, _), WalkSeq(_, _, _, _)
Walk(e, prefix, byTime) ==
  IF e.k = "f" THEN <<Append(prefix, e.n)>>
  ELSE WalkSeq(Ordered(e.c, byTime), 1, Append(prefix, e.n), byTime)
WalkSeq(cs, i, prefix, byTime) ==
  IF i > Len(cs) THEN <<>> ELSE Walk(cs[i], prefix, byTime) \o WalkSeq(cs, i + 1, prefix, byTime)

Last(p) == p[Len(p)]
DataFilesOf(arg, byTime) == SelectSeq(Walk(arg, <<>>, byTime), LAMBDA p : IsData(Last(p)))
RulesFilesOf(arg, byTime) ==
  IF arg.k = "f" THEN <<<<arg.n>>>>
  ELSE SelectSeq(Walk(arg, <<>>, byTime), LAMBDA p : IsRules(Last(p)))

\* ---- `cfn-guard test --dir`: which test files belong to which rules file ----------------
\* (docs/UNIT_TESTING.md: the tests of <name>.guard are written in <name>_tests.yaml; test.rs
\* looks for them in the `tests` directory next to the rules file)
X_tests == <<95, 116, 101, 115, 116, 115>>
TestsDir == <<116, 101, 115, 116, 115>>
TestExts == {X_yaml, X_yml, X_json, X_jsn}
RulePrefix(rname) == IF EndsWith(rname, X_guard) THEN SubSeq(rname, 1, Len(rname) - Len(X_guard))
                     ELSE SubSeq(rname, 1, Len(rname) - Len(X_ruleset))
IsTestNameOf(tname, rname) == IsRules(rname) /\ \E e \in TestExts : tname = RulePrefix(rname) \o X_tests \o e

RECURSIVE Concat(_, _, _, _)
Concat(args, i, F(_, _), byTime) == IF i > Len(args) THEN <<>> ELSE F(args[i], byTime) \o Concat(args, i + 1, F, byTime)
\* the data files / rules files of a run, in the order they are read
DataFiles(args, byTime) == Concat(args, 1, DataFilesOf, byTime)
RulesFiles(args, byTime) == Concat(args, 1, RulesFilesOf, byTime)
=============================================================================
