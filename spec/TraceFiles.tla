------------------------------ MODULE TraceFiles ------------------------------
(***************************************************************************)
(* C12 (file walks) - the files a real `validate` run read, and the order  *)
(* of the (rules file, data file) pairs it evaluated, against GuardFiles.  *)
(* A line: a tree built on disk, and for each order flag (alphabetical,    *)
(* --last-modified) what the console summary of the run showed:            *)
(*   pairs  the sequence of (rules file name, data file path) evaluated    *)
(*          (the summary names a rules file by its file name only)         *)
(* Relations, per flag:                                                    *)
(*   files-read    the data files / rules files that occur are exactly     *)
(*                 DataFiles / RulesFiles of the tree                      *)
(*   walk-order    the pairs are RulesFiles x DataFiles, rules files       *)
(*                 outermost, both in the specified visiting order         *)
(*   exit          0 (every document passes the rules written for it)      *)
(***************************************************************************)
EXTENDS GuardFiles, Json, IOUtils

Rec == ndJsonDeserialize(IOEnv.TRACE)
VARIABLE l

Relate(i, name, holds) ==
  IF holds THEN PrintT(<<"RELATE", i, "ok", name>>) ELSE PrintT(<<"RELATE", i, "broken", name>>)

AsSet(s) == {s[i] : i \in 1 .. Len(s)}

Cross(rs, ds) == [k \in 1 .. Len(rs) * Len(ds) |-> <<rs[((k - 1) \div Len(ds)) + 1], ds[((k - 1) % Len(ds)) + 1]>>]

Check(i, tag, tree, rulesArg, o, byTime) ==
  LET ds == DataFiles(<<tree>>, byTime)
      rs == RulesFiles(<<rulesArg>>, byTime) IN
  /\ Relate(i, "files-read:" \o tag,
            /\ {o.pairs[k][2] : k \in 1 .. Len(o.pairs)} = AsSet(ds)
            \* a rules file only shows when there is a data file to evaluate it on
            /\ {o.pairs[k][1] : k \in 1 .. Len(o.pairs)} = (IF ds = <<>> THEN {} ELSE {Last(rs[k]) : k \in 1 .. Len(rs)}))
  /\ Relate(i, "walk-order:" \o tag, o.pairs = Cross([k \in 1 .. Len(rs) |-> Last(rs[k])], ds))
  /\ Relate(i, "exit:" \o tag, o.exit = 0)

\* `test --dir`: line.dirs = <<[rules: <<names>>, tests: <<names>>]>> (one entry per directory that
\* holds rules files, `tests` = the files of its tests sub-directory); line.ran = <<[dir, rule, test]>>:
\* test file `test` was run against rules file `rule` of directory number `dir`
TestDirStep(line) ==
  LET D == 1 .. Len(line.dirs)
      Ran(d, r, t) == \E k \in 1 .. Len(line.ran) : line.ran[k].dir = d /\ line.ran[k].rule = r /\ line.ran[k].test = t IN
  \* a test file named after a rules file is run against that rules file ...
  /\ Relate(line.i, "test-pairing:conventional-tests-run",
            \A d \in D : \A ri \in 1 .. Len(line.dirs[d].rules) : \A ti \in 1 .. Len(line.dirs[d].tests) :
              IsTestNameOf(line.dirs[d].tests[ti], line.dirs[d].rules[ri]) => Ran(d, line.dirs[d].rules[ri], line.dirs[d].tests[ti]))
  \* ... and against no other
  /\ Relate(line.i, "test-pairing:not-run-against-another-file",
            \A k \in 1 .. Len(line.ran) :
              LET x == line.ran[k] IN
              \A ri \in 1 .. Len(line.dirs[x.dir].rules) :
                (IsTestNameOf(x.test, line.dirs[x.dir].rules[ri]) => x.rule = line.dirs[x.dir].rules[ri]))
  /\ Relate(line.i, "test-pairing:exit", line.exit = 0)

Step(line) ==
  IF "dirs" \in DOMAIN line THEN TestDirStep(line)
  ELSE /\ Check(line.i, "alphabetical", line.tree, line.rules, line.obs_a, FALSE)
       /\ Check(line.i, "last-modified", line.tree, line.rules, line.obs_m, TRUE)

Init == l = 1
Next == l <= Len(Rec) /\ Step(Rec[l]) /\ l' = l + 1
Spec == Init /\ [][Next]_l

TraceAccepted ==
  LET d == TLCGet("stats").diameter IN
  IF d - 1 = Len(Rec) THEN TRUE ELSE Print(<<"TRACE-REJECTED at line", d>>, FALSE)
=============================================================================
