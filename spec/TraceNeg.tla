------------------------------ MODULE TraceNeg ------------------------------
(***************************************************************************)
(* C03 - trace validation of the negation laws on recorded executions.     *)
(*                                                                         *)
(* The trace consists of groups: one generated program evaluated on one    *)
(* document with one of its clauses (anywhere: rule body, block, when      *)
(* condition, filter) in the polarities                                    *)
(*    B  as generated          N  prefix `not` toggled                     *)
(*    O  operator-level not toggled       NO both toggled                  *)
(* Every line is judged against Denote (as in TraceEval).  In addition the *)
(* laws are evaluated directly on the implementation's observations:       *)
(*    neg==opneg   N and O give the same verdicts for every rule and file  *)
(*    double       NO gives the verdicts of B                              *)
(*    named        rule `nrn { not R }` is PASS exactly when R is not      *)
(*                 PASS; rule `nrp { R }` is PASS exactly when R is PASS   *)
(* The state of the trace specification is the group's B and N             *)
(* observations; the laws are action properties between the lines.         *)
(***************************************************************************)
EXTENDS TraceCommon

VARIABLES l, base, nobs

NoObs == [kind |-> "none"]

StatusOf(obs, name) ==
  LET idx == {i \in 1 .. Len(obs.rules) : obs.rules[i][1] = name} IN
  IF idx = {} THEN "none" ELSE obs.rules[CHOOSE i \in idx : \A j \in idx : i <= j][2]

\* a rule referenced by name counts with the status the implementation's rule_status gives it:
\* the first definition that is not SKIP
RefStatus(obs, name) ==
  LET idx == {i \in 1 .. Len(obs.rules) : obs.rules[i][1] = name /\ obs.rules[i][2] # "SKIP"} IN
  IF idx = {} THEN "SKIP" ELSE obs.rules[CHOOSE i \in idx : \A j \in idx : i <= j][2]

NamedLaw(line) ==
  line.obs.kind = "ok" =>
    LET r == RefStatus(line.obs, line.target) IN
    /\ StatusOf(line.obs, "nrp") = (IF r = "PASS" THEN "PASS" ELSE "FAIL")
    /\ StatusOf(line.obs, "nrn") = (IF r = "PASS" THEN "FAIL" ELSE "PASS")

Step(line) ==
  /\ Judge(line)
  /\ Relate(line.i, "named-rule-negation", NamedLaw(line))
  /\ CASE line.var = "B"  -> base' = line.obs /\ nobs' = NoObs
       [] line.var = "N"  -> nobs' = line.obs /\ UNCHANGED base
       [] line.var = "O"  -> /\ Relate(line.i, "prefix-not-equals-operator-not", SameVerdicts(line.obs, nobs))
                             /\ UNCHANGED <<base, nobs>>
       [] line.var = "NO" -> /\ Relate(line.i, "double-negation-restores", SameVerdicts(line.obs, base))
                             /\ UNCHANGED <<base, nobs>>

Init == l = 1 /\ base = NoObs /\ nobs = NoObs
Next == l <= Len(Rec) /\ Step(Rec[l]) /\ l' = l + 1
Spec == Init /\ [][Next]_<<l, base, nobs>>

\* groups arrive in order: an O / NO line is only ever consumed after its group's N / B
GroupOrder == l <= Len(Rec) =>
  /\ (Rec[l].var \in {"O"} => nobs.kind # "none")
  /\ (Rec[l].var \in {"N", "O", "NO"} => base.kind # "none")

TraceAccepted ==
  LET d == TLCGet("stats").diameter IN
  IF d - 1 = Len(Rec) THEN TRUE ELSE Print(<<"TRACE-REJECTED at line", d>>, FALSE)
=============================================================================
